(* C17 - header of generated files: generated-code marker, boilerplate, build constraint.

   Mirrors internal/mock_testify.templ:1-12 and internal/mock_matryer.templ:1-12 (the two
   headers differ only in the template name), template_funcs.ReadFile (the file's bytes,
   unchanged), and TemplateGenerator.format (internal/template_generator.go: noop =
   identity; gofmt = go/format.Source; goimports = imports.Process; both print through
   go/printer, whose effect on the header region is modelled by [fmt_lines]).

   Go's own rules are explicit small semantics (modelled, not verified):
     - go/build.parseFileHeader + shouldBuild             -> [parse_file_header], [should_build]
     - go/build/constraint: lexer, parser, Eval, String() -> [lex], [or_from] ..., [eval], [go_toks]
     - `go help generate`: ^// Code generated .* DO NOT EDIT\.$ before the first non-comment,
       non-blank text                                     -> [is_generated]
     - go/printer: trailing white space of comment lines removed, runs of blank lines
       outside block comments collapsed, printer.fixGoBuildLines (the //go:build line is
       re-printed from the parsed expression and moved to the last blank line of the leading
       run of blank and //-comment lines)                 -> [norm_lines], [place]
   No proofs in this file. *)
From Mk Require Import Lib.Bytes.

Definition LF : byte := x0a.

(* ---------- white space, lines ---------- *)
(* ASCII white space as bytes.TrimSpace / unicode.IsSpace see it: \t \n \v \f \r space
   (U+0085 and U+00A0 are not modelled) *)
Definition is_ws (c : byte) : bool :=
  match c with x09 | x0a | x0b | x0c | x0d | x20 => true | _ => false end.

Fixpoint lstrip (s : str) : str :=
  match s with
  | [] => []
  | c :: t => if is_ws c then lstrip t else s
  end.
Fixpoint rstrip (s : str) : str :=
  match s with
  | [] => []
  | c :: t => match rstrip t with
              | [] => if is_ws c then [] else [c]
              | t' => c :: t'
              end
  end.
Definition trim (s : str) : str := lstrip (rstrip s).

Definition is_nil (s : str) : bool := match s with [] => true | _ => false end.

(* strings.Split(s, "\n"): always at least one element *)
Fixpoint split_nl (s : str) : list str :=
  match s with
  | [] => [[]]
  | c :: t => match split_nl t with
              | l :: ls => if beqb c LF then [] :: l :: ls else (c :: l) :: ls
              | [] => [[c]]
              end
  end.
(* every line followed by a newline *)
Definition unlines (ls : list str) : str := concat (map (fun l => l ++ [LF]) ls).

(* ---------- Go's comment scanner (inner loop of go/build.parseFileHeader) ---------- *)
(* state: false = outside comments, true = inside a /* */ comment *)
Inductive scan_res := ROut | RIn | RCode.

Fixpoint scan_line (inblock : bool) (l : str) : scan_res :=
  match l with
  | [] => if inblock then RIn else ROut
  | c :: t =>
    if inblock then
      match c, t with
      | x2a, x2f :: t' => scan_line false t'          (* "*/" *)
      | _, _ => scan_line true t
      end
    else if is_ws c then scan_line false t
    else match c, t with
         | x2f, x2f :: _ => ROut                      (* "//": rest of the line is comment *)
         | x2f, x2a :: t' => scan_line true t'        (* "/*" *)
         | _, _ => RCode
         end
  end.

Definition GOBUILD : str := B "//go:build".
(* go/build.isGoBuildComment on a trimmed line *)
Definition is_gobuild (tl : str) : bool :=
  has_prefix tl GOBUILD &&
  match skipn 10 tl with [] => true | c :: _ => is_ws c end.
(* a "// +build" line as shouldBuild's fallback loop recognises it, or //go:binary-only-package *)
Definition is_plusbuild (tl : str) : bool :=
  has_prefix tl (B "//") &&
  (let r := lstrip (skipn 2 tl) in
   has_prefix r (B "+build") && match skipn 6 r with [] => true | c :: _ => is_ws c end).
Definition is_binary_only (tl : str) : bool := seqb tl (B "//go:binary-only-package").
Definition is_directive (tl : str) : bool := is_gobuild tl || is_plusbuild tl || is_binary_only tl.

(* One pass over lines that must all be blank or comments.  [chk] = also refuse
   build-constraint lines (checked, as go/build does, only outside block comments).
   Result: the comment state after the last line. *)
Fixpoint run (chk : bool) (st : bool) (ls : list str) : option bool :=
  match ls with
  | [] => Some st
  | l :: t =>
    let tl := trim l in
    if chk && negb st && is_directive tl then None
    else match scan_line st tl with
         | ROut => run chk false t
         | RIn => run chk true t
         | RCode => None
         end
  end.

(* "comment-only boilerplate text": white space, // comments, closed /* */ comments *)
Definition comment_only (bp : str) : bool :=
  match run false false (split_nl bp) with Some false => true | _ => false end.
(* ... that does not itself contain build-constraint lines *)
Definition quiet (bp : str) : bool :=
  match run true false (split_nl bp) with Some false => true | _ => false end.

(* ---------- build-constraint expressions (go/build/constraint) ---------- *)
Inductive expr := Tag (t : str) | Not (x : expr) | And (x y : expr) | Or (x y : expr).

Definition tagset := str -> bool.
Fixpoint eval (tags : tagset) (e : expr) : bool :=
  match e with
  | Tag t => tags t
  | Not x => negb (eval tags x)
  | And x y => eval tags x && eval tags y
  | Or x y => eval tags x || eval tags y
  end.

Inductive token := TTag (s : str) | TNot | TAnd | TOr | TLP | TRP.

(* ASCII letters, digits, '_' and '.' (Go also accepts non-ASCII letters and digits: not modelled) *)
Definition is_tag_char (c : byte) : bool :=
  let n := Byte.to_nat c in
  (Nat.leb 48 n && Nat.leb n 57) || (Nat.leb 65 n && Nat.leb n 90) ||
  (Nat.leb 97 n && Nat.leb n 122) || Nat.eqb n 95 || Nat.eqb n 46.

Definition flush (cur : str) (k : option (list token)) : option (list token) :=
  match cur with
  | [] => k
  | _ => match k with Some ts => Some (TTag cur :: ts) | None => None end
  end.
Definition ocons (t : token) (k : option (list token)) : option (list token) :=
  match k with Some ts => Some (t :: ts) | None => None end.

(* exprParser.lex, run over the whole text; [cur] = the tag being read.  None = syntax error *)
Fixpoint lex (cur : str) (s : str) : option (list token) :=
  match s with
  | [] => flush cur (Some [])
  | c :: t =>
    if is_tag_char c then lex (cur ++ [c]) t
    else match c with
         | x20 | x09 => flush cur (lex [] t)
         | x28 => flush cur (ocons TLP (lex [] t))
         | x29 => flush cur (ocons TRP (lex [] t))
         | x21 => flush cur (ocons TNot (lex [] t))
         | x26 => match t with
                  | x26 :: t' => flush cur (ocons TAnd (lex [] t'))
                  | _ => None
                  end
         | x7c => match t with
                  | x7c :: t' => flush cur (ocons TOr (lex [] t'))
                  | _ => None
                  end
         | _ => None
         end
  end.

Inductive pres := POk (e : expr) (rest : list token) | PErr | PFuel.

Definition comb (f : expr -> expr -> expr) (acc : option expr) (x : expr) : expr :=
  match acc with None => x | Some a => f a x end.

(* exprParser.atom, given the parser for a parenthesised expression *)
Definition atom (por : list token -> pres) (ts : list token) : pres :=
  match ts with
  | TLP :: r => match por r with
                | POk x (TRP :: r') => POk x r'
                | POk _ _ => PErr                      (* missing close paren *)
                | o => o
                end
  | TTag s :: r => POk (Tag s) r
  | _ => PErr
  end.

(* exprParser.or / and / not.  `x := p.and(); for p.tok == "||" { x = or(x, p.and()) }` is
   written as: parse one operand, combine it with the accumulated left operand, continue
   if the next token is the operator.  Fuel: one unit per call. *)
Fixpoint or_from (n : nat) (acc : option expr) (ts : list token) : pres :=
  match n with
  | 0 => PFuel
  | S n =>
    match and_from n None ts with
    | POk y r => let x := comb Or acc y in
                 match r with TOr :: r' => or_from n (Some x) r' | _ => POk x r end
    | o => o
    end
  end
with and_from (n : nat) (acc : option expr) (ts : list token) : pres :=
  match n with
  | 0 => PFuel
  | S n =>
    match p_not n ts with
    | POk u r => let x := comb And acc u in
                 match r with TAnd :: r' => and_from n (Some x) r' | _ => POk x r end
    | o => o
    end
  end
with p_not (n : nat) (ts : list token) : pres :=
  match n with
  | 0 => PFuel
  | S n =>
    match ts with
    | TNot :: TNot :: _ => PErr                        (* double negation not allowed *)
    | TNot :: r => match atom (or_from n None) r with
                   | POk x r' => POk (Not x) r'
                   | o => o
                   end
    | _ => atom (or_from n None) ts
    end
  end.

(* number of exprParser.not calls of a successful parse: one per tag and per "(" *)
Fixpoint calls (ts : list token) : nat :=
  match ts with
  | [] => 0
  | (TTag _ | TLP) :: t => S (calls t)
  | _ :: t => calls t
  end.
Definition max_size : nat := 1000.
Definition fuel_for (ts : list token) : nat := 3 * length ts + 3.

Inductive lres := LOk (e : expr) | LErr | LFuel.

(* constraint.parseExpr *)
Definition parse_expr (s : str) : lres :=
  match lex [] s with
  | None => LErr
  | Some ts =>
    if Nat.ltb max_size (calls ts) then LErr           (* build expression too large *)
    else match or_from (fuel_for ts) None ts with
         | POk e [] => LOk e
         | POk _ _ => LErr                             (* unexpected token *)
         | PErr => LErr
         | PFuel => LFuel
         end
  end.
(* constraint.Parse on a trimmed //go:build line (splitGoBuild + parseExpr) *)
Definition parse_line (tl : str) : lres :=
  if has_prefix tl GOBUILD then
    let rest := skipn 10 tl in
    let t := trim rest in
    if Nat.eqb (length rest) (length t) then LErr else parse_expr t
  else LErr.

(* Expr.String(): token level, then text *)
Definition paren (ts : list token) : list token := TLP :: ts ++ [TRP].
Fixpoint go_toks (e : expr) : list token :=
  match e with
  | Tag t => [TTag t]
  | Not x => TNot :: match x with And _ _ | Or _ _ => paren (go_toks x) | _ => go_toks x end
  | And x y =>
      (match x with Or _ _ => paren (go_toks x) | _ => go_toks x end) ++ TAnd ::
      (match y with Or _ _ => paren (go_toks y) | _ => go_toks y end)
  | Or x y =>
      (match x with And _ _ => paren (go_toks x) | _ => go_toks x end) ++ TOr ::
      (match y with And _ _ => paren (go_toks y) | _ => go_toks y end)
  end.
Definition tok_str (t : token) : str :=
  match t with
  | TTag s => s
  | TNot => B "!"
  | TAnd => B " && "
  | TOr => B " || "
  | TLP => B "("
  | TRP => B ")"
  end.
Definition render (ts : list token) : str := concat (map tok_str ts).
Definition go_string (e : expr) : str := render (go_toks e).

(* guards on expressions *)
Definition wf_tag (t : str) : bool := negb (is_nil t) && forallb is_tag_char t.
Fixpoint wf_tags (e : expr) : bool :=
  match e with
  | Tag t => wf_tag t
  | Not x => wf_tags x
  | And x y | Or x y => wf_tags x && wf_tags y
  end.
(* no negation applied directly to a negation: String() prints it as "!!x", which
   the parser rejects *)
Fixpoint no_dneg (e : expr) : bool :=
  match e with
  | Tag _ => true
  | Not (Not _) => false
  | Not x => no_dneg x
  | And x y | Or x y => no_dneg x && no_dneg y
  end.
Definition small (e : expr) : bool := Nat.leb (calls (go_toks e)) max_size.

(* ---------- go/build.parseFileHeader and shouldBuild ---------- *)
Record hacc := { h_gb : option str; h_other : bool }.
Inductive hres := HOk (a : hacc) | HMultiple.

Fixpoint parse_file_header (st : bool) (a : hacc) (ls : list str) : hres :=
  match ls with
  | [] => HOk a
  | l :: t =>
    let tl := trim l in
    let step (a' : hacc) :=
      match scan_line st tl with
      | ROut => parse_file_header false a' t
      | RIn => parse_file_header true a' t
      | RCode => HOk a'                                 (* found non-comment text *)
      end in
    if negb st && is_gobuild tl then
      match h_gb a with
      | Some _ => HMultiple
      | None => step {| h_gb := Some tl; h_other := h_other a |}
      end
    else if negb st && (is_plusbuild tl || is_binary_only tl) then
      step {| h_gb := h_gb a; h_other := true |}
    else step a
  end.

Inductive verdict := Included | Excluded | BadConstraint | MultipleGoBuild | Unmodelled | FuelOut.
Definition of_bool (b : bool) : verdict := if b then Included else Excluded.

(* The decision of the go command for one file (build tags only; file names are not
   modelled).  "// +build" processing and binary-only packages are not modelled: Unmodelled. *)
Definition should_build (tags : tagset) (ls : list str) : verdict :=
  match parse_file_header false {| h_gb := None; h_other := false |} ls with
  | HMultiple => MultipleGoBuild
  | HOk a =>
    if h_other a then Unmodelled
    else match h_gb a with
         | None => Included
         | Some line => match parse_line line with
                        | LOk e => of_bool (eval tags e)
                        | LErr => BadConstraint
                        | LFuel => FuelOut
                        end
         end
  end.

(* the //go:build line, if any, and the line that follows it (documented form: the
   constraint is followed by a blank line) *)
Fixpoint gobuild_followed_by_blank (st : bool) (ls : list str) : bool :=
  match ls with
  | [] => false
  | l :: t =>
    let tl := trim l in
    if negb st && is_gobuild tl then match t with n :: _ => is_nil (trim n) | [] => false end
    else match scan_line st tl with
         | ROut => gobuild_followed_by_blank false t
         | RIn => gobuild_followed_by_blank true t
         | RCode => false
         end
  end.

(* ---------- generated-code marker ---------- *)
Definition GEN_PREFIX : str := B "// Code generated ".
Definition GEN_SUFFIX : str := B " DO NOT EDIT.".
Definition has_suffix (s p : str) : bool := has_prefix (rev s) (rev p).
(* ^// Code generated .* DO NOT EDIT\.$ on one line (no trimming: the regexp is anchored) *)
Definition matches_generated (l : str) : bool :=
  has_prefix l GEN_PREFIX && has_suffix (skipn (length GEN_PREFIX) l) GEN_SUFFIX.
(* a matching line outside block comments, before the first non-comment, non-blank text *)
Fixpoint is_generated (st : bool) (ls : list str) : bool :=
  match ls with
  | [] => false
  | l :: t =>
    if negb st && matches_generated l then true
    else match scan_line st (trim l) with
         | ROut => is_generated false t
         | RIn => is_generated true t
         | RCode => false
         end
  end.

(* ---------- the templates' header ---------- *)
Inductive tmpl := Testify | Matryer.
Definition tmpl_name (t : tmpl) : str := match t with Testify => B "testify" | Matryer => B "matryer" end.
Definition M1 : str := B "// Code generated by mockery; DO NOT EDIT.".
Definition M2 : str := B "// github.com/vektra/mockery".
Definition M3 (t : tmpl) : str := B "// template: " ++ tmpl_name t.
Definition marker_text (t : tmpl) : str := M1 ++ LF :: M2 ++ LF :: M3 t.

(* [bp] = Some content when template-data boilerplate-file is a non-empty path;
   [tags] = Some text when template-data mock-build-tags is a non-empty string.
   Bytes rendered before the package clause, formatter noop. *)
Definition above_constraint (t : tmpl) (bp : option str) : str :=
  marker_text t ++ match bp with Some b => LF :: b | None => [] end.
Definition header_noop (t : tmpl) (bp : option str) (tags : option str) : str :=
  above_constraint t bp ++
  match tags with Some x => LF :: LF :: GOBUILD ++ x20 :: x | None => [] end ++
  [LF; LF].
Definition pkg_line (pkg : str) : str := B "package " ++ pkg.

(* ---------- go/printer on the header (formatters gofmt and goimports) ---------- *)
(* blank-line runs outside block comments become one blank line *)
Fixpoint collapse (st : bool) (prev_blank : bool) (ls : list str) : list str :=
  match ls with
  | [] => []
  | l :: t =>
    let st' := match scan_line st (trim l) with RIn => true | _ => false end in
    if negb st && is_nil l then
      if prev_blank then collapse false true t else l :: collapse false true t
    else l :: collapse st' false t
  end.
Definition norm_lines (ls : list str) : list str := collapse false false (map rstrip ls).

Definition is_slash (l : str) : bool := has_prefix l (B "//").
(* (lines up to and including the last blank line of the leading run of blank and
   //-comment lines, the rest) *)
Fixpoint lead_split (ls : list str) : list str * list str :=
  match ls with
  | [] => ([], [])
  | l :: t =>
    if is_nil l || is_slash l then
      let (p, q) := lead_split t in
      match p with
      | [] => if is_nil l then ([l], q) else ([], l :: q)
      | _ => (l :: p, q)
      end
    else ([], ls)
  end.
Definition has_other (ls : list str) : bool :=
  existsb (fun l => negb (is_nil l || is_slash l)) ls.

(* printer.fixGoBuildLines with exactly one //go:build line [gb], which the template put
   after [L] and a blank line *)
Definition place (L : list str) (gb : str) : list str :=
  if has_other L then
    let (p, q) := lead_split L in
    p ++ gb :: [] :: collapse false false (q ++ [[]])
  else collapse false false (L ++ [[]; gb; []]).

(* the re-printed constraint line: constraint.Parse, then "//go:build " + x.String();
   a line that does not parse is left alone *)
Definition gb_canon (x : str) : str :=
  let line := rstrip (GOBUILD ++ x20 :: x) in
  match parse_line (trim line) with
  | LOk e => GOBUILD ++ x20 :: go_string e
  | _ => line
  end.

Definition fmt_lines (t : tmpl) (bp : option str) (tags : option str) : list str :=
  let L := norm_lines (split_nl (above_constraint t bp)) in
  match tags with
  | None => collapse false false (L ++ [[]])
  | Some x => place L (gb_canon x)
  end.

Inductive formatter := Noop | Gofmt | Goimports.

(* bytes before the package clause *)
Definition header (f : formatter) (t : tmpl) (bp : option str) (tags : option str) : str :=
  match f with
  | Noop => header_noop t bp tags
  | Gofmt | Goimports => unlines (fmt_lines t bp tags)
  end.
(* lines of the file up to and including the package clause *)
Definition file_lines (f : formatter) (t : tmpl) (bp : option str) (tags : option str) (pkg : str) : list str :=
  match f with
  | Noop => split_nl (header_noop t bp tags ++ pkg_line pkg)
  | Gofmt | Goimports => fmt_lines t bp tags ++ [pkg_line pkg]
  end.

(* ---------- guards for the boilerplate under a formatter ---------- *)
(* the printer leaves these texts alone: no trailing white space, no carriage return, no
   blank-line runs outside block comments, comments start in column 0, multi-line block
   comments are laid out as a "line of stars" box or flush left *)
Fixpoint no_cr (s : str) : bool := match s with [] => true | c :: t => negb (beqb c x0d) && no_cr t end.
Definition line_stable (l : str) : bool := seqb (rstrip l) l && no_cr l.

(* shape of the lines of one multi-line block comment after its first line:
   star box: every non-empty line starts with " *", the last one is " */";
   flush:    no non-empty line starts with white space or '*', the last one is "*/",
             and there is at least one non-empty inner line *)
Inductive bshape := BUnknown | BStar | BFlush.
Definition starts_star (l : str) : bool := has_prefix l (B " *").
Definition flush_line (l : str) : bool :=
  match l with [] => true | c :: _ => negb (is_ws c) && negb (beqb c x2a) end.

(* a one-line block comment, after its "/*": closed, then nothing, or one space and
   another comment (mode 0 = inside the block, 1 = just after "*/", 2 = after the space) *)
Fixpoint single_ok (mode : nat) (s : str) : bool :=
  match mode with
  | 0 => match s with
         | x2a :: x2f :: t => single_ok 1 t
         | _ :: t => single_ok 0 t
         | [] => false
         end
  | 1 => match s with [] => true | x20 :: t => single_ok 2 t | _ => false end
  | _ => match s with
         | x2f :: x2f :: _ => true
         | x2f :: x2a :: t => single_ok 0 t
         | _ => false
         end
  end.
Definition is_none {A} (o : option A) : bool := match o with None => true | _ => false end.

(* [st] = None outside block comments; Some (shape, seen_inner) inside *)
Fixpoint stable_lines (st : option (bshape * bool)) (prev_blank : bool) (ls : list str) : bool :=
  match ls with
  | [] => is_none st
  | l :: t =>
    line_stable l &&
    match st with
    | None =>
      if is_nil l then negb prev_blank && stable_lines None true t
      else if is_slash l then stable_lines None false t
      else if has_prefix l (B "/*") then
        match scan_line true (skipn 2 l) with
        | RIn => stable_lines (Some (BUnknown, false)) false t      (* multi-line block opens *)
        | ROut => single_ok 0 (skipn 2 l) && stable_lines None false t
        | RCode => false
        end
      else false
    | Some (sh, inner) =>
      if seqb l (B " */") then
        match sh with BFlush => false | _ => stable_lines None false t end
      else if seqb l (B "*/") then
        match sh with BFlush => inner && stable_lines None false t | _ => false end
      else match scan_line true l with
           | RIn =>
             if is_nil l then stable_lines (Some (sh, inner)) false t
             else if starts_star l then
               match sh with BFlush => false | _ => stable_lines (Some (BStar, true)) false t end
             else if flush_line l then
               match sh with BStar => false | _ => stable_lines (Some (BFlush, true)) false t end
             else false
           | _ => false                                  (* closing line with more text: not in the class *)
           end
    end
  end.

(* the relocated constraint does not land inside the boilerplate: no block comment at
   all, or no blank line before the first block comment *)
Definition no_split (ls : list str) : bool := negb (has_other ls) || match fst (lead_split ls) with [] => true | _ => false end.

Definition fmt_verbatim_guard (bp : str) : bool :=
  stable_lines None false (split_nl bp) && no_split (split_nl bp).

(* ---------- regeneration: writing the output file (internal/cmd/mockery.go, RootApp.Run) ---------- *)
(* One run render_files the whole file from the settings of THAT run and writes it with
   pathlib.WriteFile (truncate + write): `if outFileExists && !force-file-write -> error
   "outfile exists"`, otherwise the file's new content is exactly the render_fileed bytes; what was in
   the file before is never read.  [body] = the bytes after the package clause line (imports and
   mocks; a parameter here). *)
Record settings := { s_fmt : formatter; s_tmpl : tmpl; s_bp : option str; s_tags : option str; s_pkg : str }.
Inductive wres := WOk | WExists.

Section Regen.
  Variable body : settings -> str.
  Definition render_file (s : settings) : str :=
    header (s_fmt s) (s_tmpl s) (s_bp s) (s_tags s) ++ pkg_line (s_pkg s) ++ body s.
  (* one run; [old] = content of the output file before it (None = absent) *)
  Definition write_step (old : option str) (force : bool) (s : settings) : option str * wres :=
    match old with
    | Some _ => if force then (Some (render_file s), WOk) else (old, WExists)
    | None => (Some (render_file s), WOk)
    end.
  (* a history of runs over the same output path: (force-file-write, settings) per run *)
  Definition regen (old : option str) (hist : list (bool * settings)) : option str :=
    fold_left (fun f r => fst (write_step f (fst r) (snd r))) hist old.
End Regen.

(* ---------- one run, several output files ---------- *)
(* Every output file is rendered from its own (package-level) template-data: the boilerplate
   is read with template_funcs.ReadFile (os.ReadFile of exactly the configured path string, at
   that moment; no state is kept between files) and the tags are that file's tags. *)
Definition read_file (fsys : str -> option str) (path : str) : option str :=
  match path with [] => Some [] | _ => fsys path end.

Record job := { j_fmt : formatter; j_tmpl : tmpl; j_bpfile : option str; j_tags : option str; j_pkg : str }.

(* None = the template fails (file cannot be read) *)
Definition job_settings (fsys : str -> option str) (j : job) : option settings :=
  match j_bpfile j with
  | None => Some {| s_fmt := j_fmt j; s_tmpl := j_tmpl j; s_bp := None; s_tags := j_tags j; s_pkg := j_pkg j |}
  | Some p =>
    match read_file fsys p with
    | Some b => Some {| s_fmt := j_fmt j; s_tmpl := j_tmpl j; s_bp := Some b; s_tags := j_tags j; s_pkg := j_pkg j |}
    | None => None
    end
  end.

Definition run_all (body : settings -> str) (fsys : str -> option str) (jobs : list job) : list (option str) :=
  map (fun j => option_map (render_file body) (job_settings fsys j)) jobs.

(* ---------- template-data of a file: own keys first, missing keys from the ancestors ---------- *)
(* config.mergeConfigs / mergeStringMaps: template-data is merged key by key from the top
   level, the package's `recursive: true` ancestors and the package itself (C08 owns the merge;
   here only its result for the two header keys is named). *)
Definition inherit {A} (own parent : option A) : option A :=
  match own with Some _ => own | None => parent end.
Definition effective (own parent : settings) : settings :=
  {| s_fmt := s_fmt own; s_tmpl := s_tmpl own; s_bp := inherit (s_bp own) (s_bp parent);
     s_tags := inherit (s_tags own) (s_tags parent); s_pkg := s_pkg own |}.

(* ---------- an output file shared by several mocks ---------- *)
(* internal/cmd/mockery.go (RootApp.Run): `fileConfig := interfacesInFile.interfaces[0].Config` -
   the parameters of the file as a whole, the file-level template-data with boilerplate-file and
   mock-build-tags among them, are those of the FIRST mock added to the file (interfaces in
   file-name and declaration order, `configs` entries in list order); the templates read the two
   header keys from that file-level data only.  [mocks] = the effective settings of the mocks
   of the file, in that order. *)
Definition file_settings (mocks : list settings) : option settings :=
  match mocks with [] => None | m :: _ => Some m end.
Definition shared_prefix (mocks : list settings) : option str :=
  match file_settings mocks with
  | Some m => Some (header (s_fmt m) (s_tmpl m) (s_bp m) (s_tags m) ++ pkg_line (s_pkg m))
  | None => None
  end.
