(* Semantic versions as tools/cmd/tag.go uses them: github.com/Masterminds/semver/v3 v3.2.1
   [NewVersion] (the coercing parser), [String], [Compare] / [GreaterThan] / [LessThan].
   Model only; proofs are in Misc/Semver_proofs.v.

   A version keeps the pre-release and the build metadata as the raw strings the library
   keeps ([Version.pre], [Version.metadata]); [Compare] splits the pre-release at '.' at
   comparison time, exactly as comparePrerelease does.  Segments are uint64 in Go:
   numbers are [N] here and every conversion fails at 2^64 as strconv.ParseUint does. *)
From Coq Require Import NArith Decimal DecimalN.
From Mk Require Import Lib.Bytes.

(* ---------- characters ---------- *)
Definition c_dot : byte := x2e.
Definition c_dash : byte := x2d.
Definition c_plus : byte := x2b.
Definition c_v : byte := x76.
Definition c_0 : byte := x30.

Definition digit_of_byte (b : byte) : option (uint -> uint) :=
  match b with
  | x30 => Some D0 | x31 => Some D1 | x32 => Some D2 | x33 => Some D3 | x34 => Some D4
  | x35 => Some D5 | x36 => Some D6 | x37 => Some D7 | x38 => Some D8 | x39 => Some D9
  | _ => None
  end.
Definition is_digit (b : byte) : bool :=
  match digit_of_byte b with Some _ => true | None => false end.
(* the class [0-9A-Za-z-] of the regular expression and of [allowed] *)
Definition is_allowed (b : byte) : bool :=
  let n := bnat b in
  is_digit b || ((65 <=? n) && (n <=? 90)) || ((97 <=? n) && (n <=? 122)) || beqb b c_dash.

(* ---------- decimal numbers: strconv.ParseUint(s, 10, 64) and %d ---------- *)
Fixpoint uint_of_bytes (s : str) : option uint :=
  match s with
  | [] => Some Nil
  | b :: t => match digit_of_byte b, uint_of_bytes t with
              | Some d, Some u => Some (d u)
              | _, _ => None
              end
  end.
Fixpoint bytes_of_uint (u : uint) : str :=
  match u with
  | Nil => []
  | D0 u => x30 :: bytes_of_uint u | D1 u => x31 :: bytes_of_uint u
  | D2 u => x32 :: bytes_of_uint u | D3 u => x33 :: bytes_of_uint u
  | D4 u => x34 :: bytes_of_uint u | D5 u => x35 :: bytes_of_uint u
  | D6 u => x36 :: bytes_of_uint u | D7 u => x37 :: bytes_of_uint u
  | D8 u => x38 :: bytes_of_uint u | D9 u => x39 :: bytes_of_uint u
  end.

Definition two64 : N := 18446744073709551616%N.

(* ParseUint: error on "", on any non-digit (no sign, no underscore in base 10), on overflow *)
Definition parse_uint (s : str) : option N :=
  match s with
  | [] => None
  | _ => match uint_of_bytes s with
         | None => None
         | Some u => let n := N.of_uint u in if N.ltb n two64 then Some n else None
         end
  end.
Definition print_uint (n : N) : str := bytes_of_uint (N.to_uint n).

(* ---------- versions ---------- *)
Record version := { major : N; minor : N; patch : N; pre : str; meta : str }.

Definition v0 : version := {| major := 0; minor := 0; patch := 0; pre := []; meta := [] |}.

(* strings.Split(s, c): never the empty list; "" gives [""] *)
Fixpoint split_on (c : byte) (s : str) : list str :=
  match s with
  | [] => [[]]
  | b :: t => if beqb b c then [] :: split_on c t
              else match split_on c t with
                   | [] => [[b]]
                   | p :: ps => (b :: p) :: ps
                   end
  end.
Fixpoint join_with (c : byte) (l : list str) : str :=
  match l with
  | [] => []
  | [x] => x
  | x :: t => x ++ c :: join_with c t
  end.

(* longest prefix of digits, and the rest *)
Fixpoint span_digits (s : str) : str * str :=
  match s with
  | [] => ([], [])
  | b :: t => if is_digit b then let (d, r) := span_digits t in (b :: d, r) else ([], s)
  end.
(* prefix before the first [c], and what follows it (None: no [c]) *)
Fixpoint break_on (c : byte) (s : str) : str * option str :=
  match s with
  | [] => ([], None)
  | b :: t => if beqb b c then ([], Some t) else let (p, r) := break_on c t in (b :: p, r)
  end.

(* group (\.[0-9]+)? of the regular expression *)
Definition opt_dot_num (r : str) : option str * str :=
  match r with
  | b :: t => if beqb b c_dot
              then match span_digits t with
                   | ([], _) => (None, r)
                   | (d, r') => (Some d, r')
                   end
              else (None, r)
  | [] => (None, r)
  end.

(* [0-9A-Za-z\-]+(\.[0-9A-Za-z\-]+)*  *)
Definition ident_ok (x : str) : bool :=
  match x with [] => false | _ => forallb is_allowed x end.
Definition idents_ok (s : str) : bool := forallb ident_ok (split_on c_dot s).

(* validatePrerelease on one part: a purely numeric identifier must not start with 0
   (unless it is "0") *)
Definition all_digits (x : str) : bool := forallb is_digit x.
Definition pre_part_ok (x : str) : bool :=
  if all_digits x
  then match x with b :: _ :: _ => negb (beqb b c_0) | _ => true end
  else forallb is_allowed x.
Definition pre_ok (p : str) : bool := forallb pre_part_ok (split_on c_dot p).

Definition num_or_zero (o : option str) : option N :=
  match o with None => Some 0%N | Some d => parse_uint d end.

(* the part of the regular expression after the numbers: optional '-' and dot-separated
   identifiers, optional '+' and dot-separated identifiers, end of string; gives (pre, metadata) *)
Definition parse_tail (r3 : str) : option (str * str) :=
  match r3 with
  | [] => Some ([], [])
  | b :: t =>
    if beqb b c_dash then
      let (p, m) := break_on c_plus t in
      if idents_ok p
      then match m with
           | None => Some (p, [])
           | Some m' => if idents_ok m' then Some (p, m') else None
           end
      else None
    else if beqb b c_plus then (if idents_ok t then Some ([], t) else None)
    else None
  end.

(* semver.NewVersion *)
Definition strip_v (s : str) : str :=
  match s with b :: t => if beqb b c_v then t else s | [] => s end.
Definition parse_body (s1 : str) : option version :=
  let (mj, r1) := span_digits s1 in
  match mj with
  | [] => None
  | _ =>
    let (mn, r2) := opt_dot_num r1 in
    let (pt, r3) := opt_dot_num r2 in
    match parse_tail r3 with
    | None => None
    | Some (p, m) =>
      match parse_uint mj, num_or_zero mn, num_or_zero pt with
      | Some a, Some b, Some c =>
        if match p with [] => true | _ => pre_ok p end
        then Some {| major := a; minor := b; patch := c; pre := p; meta := m |}
        else None
      | _, _, _ => None
      end
    end
  end.

Definition parse (s : str) : option version := parse_body (strip_v s).

(* Version.String *)
Definition print (v : version) : str :=
  print_uint (major v) ++ c_dot :: print_uint (minor v) ++ c_dot :: print_uint (patch v)
  ++ (match pre v with [] => [] | p => c_dash :: p end)
  ++ (match meta v with [] => [] | m => c_plus :: m end).

(* ---------- comparison ---------- *)
(* comparePrePart *)
Definition cmp_part (s o : str) : comparison :=
  if seqb s o then Eq else
  match s, o with
  | [], _ => Lt
  | _, [] => Gt
  | _, _ =>
    match parse_uint o, parse_uint s with
    | None, None => if sltb o s then Gt else Lt
    | None, Some _ => Lt
    | Some _, None => Gt
    | Some oi, Some si => if N.ltb oi si then Gt else Lt
    end
  end.

(* comparePrerelease: position by position, a missing part is "" *)
Fixpoint cmp_rest_l (a : list str) : comparison :=
  match a with
  | [] => Eq
  | x :: a' => match cmp_part x [] with Eq => cmp_rest_l a' | c => c end
  end.
Fixpoint cmp_rest_r (b : list str) : comparison :=
  match b with
  | [] => Eq
  | y :: b' => match cmp_part [] y with Eq => cmp_rest_r b' | c => c end
  end.
Fixpoint cmp_parts (a b : list str) : comparison :=
  match a, b with
  | [], _ => cmp_rest_r b
  | _, [] => cmp_rest_l a
  | x :: a', y :: b' => match cmp_part x y with Eq => cmp_parts a' b' | c => c end
  end.

Definition cmp_pre (ps po : str) : comparison :=
  match ps, po with
  | [], [] => Eq
  | [], _ => Gt
  | _, [] => Lt
  | _, _ => cmp_parts (split_on c_dot ps) (split_on c_dot po)
  end.

(* Version.Compare: build metadata is not looked at *)
Definition compare (v o : version) : comparison :=
  match N.compare (major v) (major o) with
  | Eq => match N.compare (minor v) (minor o) with
          | Eq => match N.compare (patch v) (patch o) with
                  | Eq => cmp_pre (pre v) (pre o)
                  | c => c
                  end
          | c => c
          end
  | c => c
  end.

Definition gtb (v o : version) : bool := match compare v o with Gt => true | _ => false end.
Definition ltb (v o : version) : bool := match compare v o with Lt => true | _ => false end.
Definition lt (a b : version) : Prop := compare a b = Lt.
Definition gt (a b : version) : Prop := compare a b = Gt.
(* equal precedence: everything but the build metadata *)
Definition eqv (a b : version) : Prop :=
  major a = major b /\ minor a = minor b /\ patch a = patch b /\ pre a = pre b.

(* ---------- well-formed versions: what [parse] can return ---------- *)
(* for the ordering only the pre-release identifiers matter: none is empty and a purely
   numeric one has no leading zero *)
Definition wf_ident (x : str) : bool :=
  match x with
  | [] => false
  | b :: t => negb (all_digits x && beqb b c_0 && match t with [] => false | _ => true end)
  end.
Definition wf (v : version) : bool :=
  match pre v with [] => true | p => forallb wf_ident (split_on c_dot p) end.

(* everything [parse] guarantees (used for the print/parse round trip) *)
Definition valid (v : version) : bool :=
  N.ltb (major v) two64 && N.ltb (minor v) two64 && N.ltb (patch v) two64
  && match pre v with [] => true | p => idents_ok p && pre_ok p end
  && match meta v with [] => true | m => idents_ok m end.

(* ---------- semver.org 2.0.0 precedence (specification side) ----------
   Identifiers consisting of only digits are compared numerically - without any bound -,
   others bytewise; numeric ones are lower; a longer list of identifiers is higher when all
   preceding ones are equal.  The library agrees with it as long as numeric identifiers fit
   in uint64 ([small]); above that it falls back to bytewise comparison. *)
Definition num_unb (x : str) : option N :=
  match x with
  | [] => None
  | _ => match uint_of_bytes x with Some u => Some (N.of_uint u) | None => None end
  end.
Definition spec_cmp_ident (x y : str) : comparison :=
  match num_unb x, num_unb y with
  | Some a, Some b => N.compare a b
  | Some _, None => Lt
  | None, Some _ => Gt
  | None, None => if seqb x y then Eq else if sltb x y then Lt else Gt
  end.
Fixpoint spec_cmp_idents (a b : list str) : comparison :=
  match a, b with
  | [], [] => Eq
  | [], _ :: _ => Lt
  | _ :: _, [] => Gt
  | x :: a', y :: b' => match spec_cmp_ident x y with Eq => spec_cmp_idents a' b' | c => c end
  end.
Definition spec_cmp_pre (ps po : str) : comparison :=
  match ps, po with
  | [], [] => Eq
  | [], _ => Gt
  | _, [] => Lt
  | _, _ => spec_cmp_idents (split_on c_dot ps) (split_on c_dot po)
  end.
Definition spec_compare (v o : version) : comparison :=
  match N.compare (major v) (major o) with
  | Eq => match N.compare (minor v) (minor o) with
          | Eq => match N.compare (patch v) (patch o) with
                  | Eq => spec_cmp_pre (pre v) (pre o)
                  | c => c
                  end
          | c => c
          end
  | c => c
  end.
Definition small_ident (x : str) : bool :=
  match num_unb x with Some n => N.ltb n two64 | None => true end.
Definition small (v : version) : bool :=
  match pre v with [] => true | p => forallb small_ident (split_on c_dot p) end.
