(* Proofs about Misc/Tag.v. *)
From Coq Require Import NArith Permutation.
From Mk Require Import Lib.Bytes Misc.Semver Misc.Semver_proofs Misc.Tag.

(* ---------- scanning tag names ---------- *)
Lemma scan_ver n v : scan_name n = ScanVer v ->
  parse n = Some v /\ wf v = true /\ valid v = true /\ length (split_on c_dot n) >= 3.
Proof.
  unfold scan_name. destruct (Nat.ltb_spec (length (split_on c_dot n)) 3) as [H|H]; [discriminate|].
  destruct (parse n) as [w|] eqn:E; [|discriminate]. intros I. injection I as <-.
  repeat split; auto; [eapply parse_wf | eapply parse_valid]; exact E.
Qed.

Lemma full_tag_cons_skip n t mj w : (forall v, scan_name n <> ScanVer v) ->
  (full_tag (n :: t) mj w <-> full_tag t mj w).
Proof.
  intros S. unfold full_tag. split.
  - intros (m & [<-|Hin] & Hs & Hm); [exfalso; eapply S; exact Hs | eauto].
  - intros (m & Hin & Hs & Hm). exists m. simpl. auto.
Qed.

Lemma full_tag_cons_ver n t mj v w : scan_name n = ScanVer v ->
  (full_tag (n :: t) mj w <-> (w = v /\ major v = mj) \/ full_tag t mj w).
Proof.
  intros S. unfold full_tag. split.
  - intros (m & [<-|Hin] & Hs & Hm).
    + rewrite S in Hs. injection Hs as <-. auto.
    + right. eauto.
  - intros [[-> Hm]|(m & Hin & Hs & Hm)].
    + exists n. simpl. auto.
    + exists m. simpl. auto.
Qed.

Lemma gt_of_not_gt a b c : wf a = true -> wf b = true -> wf c = true ->
  gt a b -> ~ gt c b -> gt a c.
Proof.
  intros Wa Wb Wc Hab Hcb. unfold gt in Hcb. destruct (compare c b) eqn:E; [| |congruence].
  - apply compare_eq in E; auto. unfold gt. rewrite (compare_eqv_r a c b E). exact Hab.
  - apply gt_lt; auto. apply (lt_trans c b a); auto. apply gt_lt; auto.
Qed.

Lemma largest_none names mj cur : largest names mj cur = None <-> scan_error names.
Proof.
  revert cur; induction names as [|n t IH]; intros cur; simpl.
  - split; [discriminate | intros (m & [] & _)].
  - unfold scan_error in *. destruct (scan_name n) eqn:S.
    + rewrite IH. split; intros (m & Hin & Hs); [exists m; simpl; auto|].
      destruct Hin as [<-|Hin]; [congruence | eauto].
    + split; [intros _; exists n; simpl; auto | reflexivity].
    + rewrite IH. split; intros (m & Hin & Hs); [exists m; simpl; auto|].
      destruct Hin as [<-|Hin]; [congruence | eauto].
Qed.

Lemma largest_wf names mj cur p : wf cur = true -> largest names mj cur = Some p -> wf p = true.
Proof.
  revert cur; induction names as [|n t IH]; intros cur W; simpl.
  - intros H; injection H as <-; exact W.
  - destruct (scan_name n) eqn:S; [apply IH; exact W | discriminate |].
    apply IH. destruct (gtb v cur && N.eqb (major v) mj); [apply (scan_ver _ _ S) | exact W].
Qed.

(* the previous version is [cur] or the version of one of the full tags *)
Lemma largest_origin names mj cur p : largest names mj cur = Some p -> p = cur \/ full_tag names mj p.
Proof.
  revert cur; induction names as [|n t IH]; intros cur; simpl.
  - intros H; injection H as <-; auto.
  - destruct (scan_name n) eqn:S; [| discriminate |].
    + intros H. destruct (IH _ H) as [->|F]; [auto|]. right.
      apply full_tag_cons_skip; [intros v; congruence | exact F].
    + intros H. destruct (IH _ H) as [E|F].
      * destruct (gtb v cur && N.eqb (major v) mj) eqn:C; [|auto].
        apply andb_true_iff in C as [_ Cm]. apply N.eqb_eq in Cm.
        right. apply (full_tag_cons_ver n t mj v p S). left. auto.
      * right. apply (full_tag_cons_ver n t mj v p S). auto.
Qed.

(* the gate "requested > previous" is exactly "requested > every full tag of that major" *)
Lemma largest_spec names mj cur p rv : wf rv = true -> wf cur = true ->
  largest names mj cur = Some p ->
  (gt rv p <-> gt rv cur /\ forall v, full_tag names mj v -> gt rv v).
Proof.
  intros Wr. revert cur; induction names as [|n t IH]; intros cur Wc; simpl.
  - intros H; injection H as <-. split; [intros H; split; [exact H | intros v (m & [] & _)] | tauto].
  - destruct (scan_name n) eqn:S; [| discriminate |].
    + intros H. rewrite (IH _ Wc H). split; intros [H1 H2]; split; auto; intros v F; apply H2.
      * apply (full_tag_cons_skip n t mj v) in F; [exact F | intros w; congruence].
      * apply full_tag_cons_skip; [intros w; congruence | exact F].
    + destruct (scan_ver _ _ S) as (_ & Wv & _ & _).
      destruct (gtb v cur && N.eqb (major v) mj) eqn:C; intros H.
      * apply andb_true_iff in C as [Cg Cm]. apply gtb_gt in Cg. apply N.eqb_eq in Cm.
        rewrite (IH _ Wv H). split; intros [H1 H2].
        -- split; [apply (gt_trans rv v cur); auto|]. intros w F.
           apply (full_tag_cons_ver n t mj v w S) in F as [[-> _]|F]; auto.
        -- split; [apply H2; apply (full_tag_cons_ver n t mj v v S); auto|].
           intros w F. apply H2. apply (full_tag_cons_ver n t mj v w S). auto.
      * rewrite (IH _ Wc H). split; intros [H1 H2]; split; auto; intros w F.
        -- apply (full_tag_cons_ver n t mj v w S) in F as [[-> Hm]|F]; [|auto].
           apply (gt_of_not_gt rv cur v); auto. intros G. apply gtb_gt in G.
           apply N.eqb_eq in Hm. rewrite G, Hm in C. discriminate.
        -- apply H2. apply (full_tag_cons_ver n t mj v w S). auto.
Qed.

(* ---------- refs ---------- *)
Lemma has_prefix_app p s : has_prefix (p ++ s) p = true.
Proof. apply has_prefix_spec. eauto. Qed.

Lemma skipn_app_exact {A} (p s : list A) : skipn (length p) (p ++ s) = s.
Proof. induction p; simpl; auto. Qed.

Lemma short_tag_ref s : short_tag (tag_ref s) = Some s.
Proof. unfold short_tag, tag_ref. rewrite has_prefix_app, skipn_app_exact. reflexivity. Qed.

Lemma in_tag_names r rs n : In r rs -> short_tag (r_name r) = Some n -> In n (tag_names rs).
Proof.
  induction rs as [|x t IH]; simpl; [tauto|]. intros [->|Hin] Hs.
  - rewrite Hs. simpl. auto.
  - destruct (short_tag (r_name x)); simpl; auto.
Qed.

Lemma tag_names_in rs n : In n (tag_names rs) -> exists r, In r rs /\ short_tag (r_name r) = Some n.
Proof.
  induction rs as [|x t IH]; simpl; [tauto|].
  destruct (short_tag (r_name x)) as [m|] eqn:E.
  - intros [<-|Hin]; [eauto|]. destruct (IH Hin) as (r & H1 & H2). eauto.
  - intros Hin. destruct (IH Hin) as (r & H1 & H2). eauto.
Qed.

Lemma tag_names_perm rs1 rs2 : Permutation rs1 rs2 -> Permutation (tag_names rs1) (tag_names rs2).
Proof.
  induction 1 as [|x l l' _ IH|x y l|l l' l'' _ IH1 _ IH2]; simpl.
  - constructor.
  - destruct (short_tag (r_name x)); [constructor|]; exact IH.
  - destruct (short_tag (r_name y)), (short_tag (r_name x)); try apply Permutation_refl. constructor.
  - eapply Permutation_trans; eassumption.
Qed.

Lemma filter_all {A} (f : A -> bool) l : (forall x, In x l -> f x = true) -> filter f l = l.
Proof.
  induction l as [|a l IH]; simpl; intros H; [reflexivity|].
  rewrite (H a) by auto. f_equal. apply IH. auto.
Qed.

Definition not_named (name : str) (r : ref) : bool := negb (seqb (r_name r) name).

Lemma create_unfold rs s h : create rs s h = filter (not_named (tag_ref s)) rs ++ [new_tag s h].
Proof. reflexivity. Qed.

(* ---------- names of the tags that are written ---------- *)
Lemma hd_split_no_sep c s : forallb (fun b => negb (beqb b c)) (hd [] (split_on c s)) = true.
Proof.
  induction s as [|b t IH]; simpl; [reflexivity|].
  destruct (beqb b c) eqn:E; [reflexivity|].
  pose proof (split_on_nonnil c t) as Hn. destruct (split_on c t) as [|p ps]; [contradiction|].
  simpl in *. rewrite E, IH. reflexivity.
Qed.

Lemma full_name_has_dot rv : In c_dot (full_name rv).
Proof. unfold full_name, print. right. apply in_or_app. right. left. reflexivity. Qed.

Lemma major_name_neq_full rv : major_name rv <> full_name rv.
Proof.
  intros E. pose proof (hd_split_no_sep c_dot (full_name rv)) as H.
  fold (major_name rv) in H. rewrite E in H. rewrite forallb_forall in H.
  specialize (H _ (full_name_has_dot rv)). vm_compute in H. discriminate.
Qed.

Lemma tag_ref_inj a b : tag_ref a = tag_ref b -> a = b.
Proof. unfold tag_ref. apply app_inv_head. Qed.

Lemma scan_full_name rv : valid rv = true -> scan_name (full_name rv) = ScanVer rv.
Proof.
  intros V. unfold scan_name, full_name.
  pose proof (print_three_parts rv [c_v]) as H. simpl app in H.
  destruct (Nat.ltb_spec (length (split_on c_dot (c_v :: print rv))) 3) as [L|L]; [lia|].
  rewrite (parse_v_print rv V). reflexivity.
Qed.

(* ---------- the decision ---------- *)
Lemma newer_iff i rv prev : parse (i_version i) = Some rv ->
  largest (tag_names (i_refs i)) (major rv) v0 = Some prev ->
  (gtb rv prev = true <-> newer_than_all rv (tag_names (i_refs i))).
Proof.
  intros P L. rewrite gtb_gt. unfold newer_than_all.
  apply (largest_spec _ _ _ _ rv (parse_wf _ _ P) v0_wf L).
Qed.

Lemma decide_tags i rv h : tags_now i rv h ->
  exists prev, largest (tag_names (i_refs i)) (major rv) v0 = Some prev /\
  decide i = {| o_exit := ExitOk;
                o_refs := create (create (i_refs i) (full_name rv) h) (major_name rv) h;
                o_stdout := Some (print rv, print prev) |}.
Proof.
  intros (Hdry & Hclean & P & NoErr & Newer & Hh & Hok).
  destruct (largest (tag_names (i_refs i)) (major rv) v0) as [prev|] eqn:L.
  2:{ exfalso. apply NoErr. eapply largest_none. exact L. }
  exists prev. split; [reflexivity|]. unfold decide. rewrite P, L.
  rewrite (proj2 (newer_iff i rv prev P L) Newer). simpl. rewrite Hclean, Hh, Hdry, Hok. reflexivity.
Qed.

Lemma decide_changes i : o_refs (decide i) <> i_refs i -> exists rv h, tags_now i rv h.
Proof.
  unfold decide. destruct (parse (i_version i)) as [rv|] eqn:P; simpl; [|congruence].
  destruct (largest (tag_names (i_refs i)) (major rv) v0) as [prev|] eqn:L; simpl; [|congruence].
  destruct (gtb rv prev) eqn:G; simpl; [|congruence].
  destruct (i_dirty i) eqn:D; simpl; [congruence|].
  destruct (i_head i) as [h|] eqn:H; simpl; [|congruence].
  destruct (i_dry i) eqn:Y; simpl; [congruence|].
  destruct (ref_name_ok (full_name rv)) eqn:K; simpl; [|congruence].
  intros _. exists rv, h. pose proof (proj1 (newer_iff i rv prev P L) G) as N.
  unfold tags_now. split; [exact Y|]. split; [exact D|]. split; [exact P|].
  split; [|split; [exact N | split; [exact H | exact K]]].
  intros E. apply (largest_none _ (major rv) v0) in E. congruence.
Qed.

Lemma full_tag_fresh i rv h : tags_now i rv h -> ~ In (tag_ref (full_name rv)) (map r_name (i_refs i)).
Proof.
  intros (_ & _ & P & _ & (_ & Newer) & _ & _) Hin.
  apply in_map_iff in Hin as (r & Hn & Hr).
  assert (In (full_name rv) (tag_names (i_refs i))) as Ht.
  { apply (in_tag_names r); [exact Hr|]. rewrite Hn. apply short_tag_ref. }
  assert (gt rv rv) as G.
  { apply Newer. exists (full_name rv). split; [exact Ht|]. split; [|reflexivity].
    apply scan_full_name. eapply parse_valid. exact P. }
  unfold gt in G. rewrite compare_refl in G by (eapply parse_wf; exact P). discriminate.
Qed.

Lemma exact_effect i rv h : tags_now i rv h ->
  o_refs (decide i) = filter (not_named (tag_ref (major_name rv))) (i_refs i)
                      ++ [new_tag (full_name rv) h; new_tag (major_name rv) h].
Proof.
  intros T. destruct (decide_tags i rv h T) as (prev & _ & ->). simpl.
  pose proof (full_tag_fresh i rv h T) as Fresh.
  rewrite !create_unfold. rewrite filter_app. simpl.
  assert (not_named (tag_ref (major_name rv)) (new_tag (full_name rv) h) = true) as ->.
  { unfold not_named, new_tag. cbn [r_name]. apply negb_true_iff. apply seqb_neq. intros E. apply tag_ref_inj in E.
    symmetry in E. revert E. apply major_name_neq_full. }
  rewrite (filter_all (not_named (tag_ref (full_name rv))) (i_refs i)).
  - rewrite <- app_assoc. reflexivity.
  - intros r Hr. unfold not_named. apply negb_true_iff. apply seqb_neq. intros E.
    apply Fresh. rewrite <- E. apply in_map. exact Hr.
Qed.

Lemma tags_now_changes i rv h : tags_now i rv h -> o_refs (decide i) <> i_refs i.
Proof.
  intros T E. apply (full_tag_fresh i rv h T). rewrite <- E at 1.
  rewrite (exact_effect i rv h T). rewrite map_app. apply in_or_app. right. simpl. auto.
Qed.

(* lookup view of the same: a finite map from names to what they point at *)
Lemma lookup_app name a b : lookup name (a ++ b) = match lookup name a with Some r => Some r | None => lookup name b end.
Proof. unfold lookup. induction a as [|x a IH]; simpl; [reflexivity|]. destruct (seqb (r_name x) name); auto. Qed.

Lemma lookup_filter_other name other rs : name <> other ->
  lookup name (filter (not_named other) rs) = lookup name rs.
Proof.
  intros Hne. unfold lookup. induction rs as [|x t IH]; simpl; [reflexivity|].
  unfold not_named at 1. destruct (seqb (r_name x) other) eqn:E; simpl.
  - apply seqb_eq in E. destruct (seqb (r_name x) name) eqn:E2; [apply seqb_eq in E2; congruence | exact IH].
  - destruct (seqb (r_name x) name); [reflexivity | exact IH].
Qed.

Lemma lookup_filter_same name rs : lookup name (filter (not_named name) rs) = None.
Proof.
  unfold lookup. induction rs as [|x t IH]; simpl; [reflexivity|].
  unfold not_named at 1. destruct (seqb (r_name x) name) eqn:E; simpl; [exact IH|]. rewrite E. exact IH.
Qed.

Lemma lookup_new2 name F M h : lookup name [new_tag F h; new_tag M h] =
  if seqb (tag_ref F) name then Some (new_tag F h)
  else if seqb (tag_ref M) name then Some (new_tag M h) else None.
Proof. reflexivity. Qed.

Lemma exact_effect_lookup i rv h name : tags_now i rv h ->
  lookup name (o_refs (decide i)) =
    if seqb name (tag_ref (full_name rv)) then Some (new_tag (full_name rv) h)
    else if seqb name (tag_ref (major_name rv)) then Some (new_tag (major_name rv) h)
    else lookup name (i_refs i).
Proof.
  intros T. rewrite (exact_effect i rv h T). rewrite lookup_app, lookup_new2.
  assert (tag_ref (full_name rv) <> tag_ref (major_name rv)) as FM.
  { intros E. apply tag_ref_inj in E. symmetry in E. revert E. apply major_name_neq_full. }
  rewrite (seqb_sym (tag_ref (full_name rv)) name), (seqb_sym (tag_ref (major_name rv)) name).
  destruct (seqb name (tag_ref (full_name rv))) eqn:EF.
  - apply seqb_eq in EF. subst name. rewrite lookup_filter_other by exact FM.
    destruct (lookup (tag_ref (full_name rv)) (i_refs i)) as [r|] eqn:L; [|reflexivity].
    exfalso. apply (full_tag_fresh i rv h T). unfold lookup in L. apply find_some in L as [Hin Hn].
    apply seqb_eq in Hn. rewrite <- Hn. apply in_map. exact Hin.
  - destruct (seqb name (tag_ref (major_name rv))) eqn:EM.
    + apply seqb_eq in EM. subst name. rewrite lookup_filter_same. reflexivity.
    + apply seqb_neq in EM. rewrite lookup_filter_other by exact EM.
      destruct (lookup name (i_refs i)); reflexivity.
Qed.

Lemma names_nodup i rv h : tags_now i rv h -> NoDup (map r_name (i_refs i)) -> NoDup (map r_name (o_refs (decide i))).
Proof.
  intros T ND. rewrite (exact_effect i rv h T). rewrite map_app. simpl.
  set (M := tag_ref (major_name rv)). set (F := tag_ref (full_name rv)).
  assert (NDf : NoDup (map r_name (filter (not_named M) (i_refs i)))).
  { clear T. induction (i_refs i) as [|x t IH]; simpl; [constructor|].
    inversion ND as [|? ? Hx ND']; subst. destruct (not_named M x); simpl; [|auto].
    constructor; [|auto]. intros Hin. apply Hx. apply in_map_iff in Hin as (y & Hy & Hf).
    apply filter_In in Hf as [Hf _]. rewrite <- Hy. apply in_map. exact Hf. }
  assert (HM : ~ In M (map r_name (filter (not_named M) (i_refs i)))).
  { intros Hin. apply in_map_iff in Hin as (y & Hy & Hf). apply filter_In in Hf as [_ Hf].
    unfold not_named in Hf. rewrite Hy, seqb_refl in Hf. discriminate. }
  assert (HF : ~ In F (map r_name (filter (not_named M) (i_refs i)))).
  { intros Hin. apply (full_tag_fresh i rv h T). apply in_map_iff in Hin as (y & Hy & Hf).
    apply filter_In in Hf as [Hf _]. fold F. rewrite <- Hy. apply in_map. exact Hf. }
  assert (FM : F <> M).
  { intros E. apply tag_ref_inj in E. symmetry in E. revert E. apply major_name_neq_full. }
  change (NoDup (map r_name (filter (not_named M) (i_refs i)) ++ [F; M])).
  replace (map r_name (filter (not_named M) (i_refs i)) ++ [F; M])
    with ((map r_name (filter (not_named M) (i_refs i)) ++ [F]) ++ [M]) by (rewrite <- app_assoc; reflexivity).
  apply NoDup_app_snoc; [apply NoDup_app_snoc; auto|].
  rewrite in_app_iff. simpl. intros [H|[H|[]]]; [auto | congruence].
Qed.

(* ---------- dry-run; exit classes ---------- *)
Lemma dry_run_frame i : i_dry i = true -> o_refs (decide i) = i_refs i.
Proof.
  intros Y. unfold decide. destruct (parse (i_version i)) as [rv|]; [|reflexivity].
  destruct (largest (tag_names (i_refs i)) (major rv) v0) as [prev|]; [|reflexivity].
  destruct (negb (gtb rv prev)); [reflexivity|]. destruct (i_dirty i); [reflexivity|].
  destruct (i_head i); [|reflexivity]. rewrite Y. reflexivity.
Qed.

Lemma untouched i : (forall rv h, ~ tags_now i rv h) -> o_refs (decide i) = i_refs i.
Proof.
  intros NT. unfold decide. destruct (parse (i_version i)) as [rv|] eqn:P; [|reflexivity].
  destruct (largest (tag_names (i_refs i)) (major rv) v0) as [prev|] eqn:L; [|reflexivity].
  destruct (gtb rv prev) eqn:G; [|reflexivity]. simpl.
  destruct (i_dirty i) eqn:D; [reflexivity|].
  destruct (i_head i) as [h|] eqn:H; [|reflexivity].
  destruct (i_dry i) eqn:Y; [reflexivity|].
  destruct (ref_name_ok (full_name rv)) eqn:K; [|reflexivity].
  exfalso. apply (NT rv h). pose proof (proj1 (newer_iff i rv prev P L) G) as N.
  unfold tags_now. split; [exact Y|]. split; [exact D|]. split; [exact P|].
  split; [|split; [exact N | split; [exact H | exact K]]].
  intros E. apply (largest_none _ (major rv) v0) in E. congruence.
Qed.

Lemma exit_nothing i : o_exit (decide i) = ExitNothing <->
  exists rv, parse (i_version i) = Some rv /\ ~ scan_error (tag_names (i_refs i)) /\
             ~ newer_than_all rv (tag_names (i_refs i)).
Proof.
  unfold decide. destruct (parse (i_version i)) as [rv|] eqn:P.
  2:{ split; [discriminate | intros (rv & E & _); discriminate]. }
  destruct (largest (tag_names (i_refs i)) (major rv) v0) as [prev|] eqn:L.
  2:{ split; [discriminate|]. intros (rv' & E & NE & _). exfalso. apply NE.
      injection E as <-. eapply largest_none. exact L. }
  pose proof (newer_iff i rv prev P L) as N.
  assert (NE : ~ scan_error (tag_names (i_refs i))).
  { intros E. apply (largest_none _ (major rv) v0) in E. congruence. }
  destruct (gtb rv prev) eqn:G; simpl.
  - split.
    + destruct (i_dirty i); [discriminate|]. destruct (i_head i); [|discriminate].
      destruct (i_dry i); [discriminate|]. destruct (negb (ref_name_ok (full_name rv))); discriminate.
    + intros (rv' & E & _ & NN). injection E as <-. exfalso. apply NN. apply N. reflexivity.
  - split; [|reflexivity]. intros _. exists rv. split; [reflexivity|]. split; [exact NE|].
    intros H. apply N in H. discriminate.
Qed.

Lemma exit_ok i : o_exit (decide i) = ExitOk <->
  exists rv h, parse (i_version i) = Some rv /\ ~ scan_error (tag_names (i_refs i)) /\
               newer_than_all rv (tag_names (i_refs i)) /\ i_dirty i = false /\ i_head i = Some h /\
               (i_dry i = true \/ ref_name_ok (full_name rv) = true).
Proof.
  unfold decide. destruct (parse (i_version i)) as [rv|] eqn:P.
  2:{ split; [discriminate | intros (rv & h & E & _); discriminate]. }
  destruct (largest (tag_names (i_refs i)) (major rv) v0) as [prev|] eqn:L.
  2:{ split; [discriminate|]. intros (rv' & h & E & NE & _). exfalso. apply NE.
      injection E as <-. eapply largest_none. exact L. }
  pose proof (newer_iff i rv prev P L) as N.
  assert (NE : ~ scan_error (tag_names (i_refs i))).
  { intros E. apply (largest_none _ (major rv) v0) in E. congruence. }
  destruct (gtb rv prev) eqn:G; simpl.
  2:{ split; [discriminate|]. intros (rv' & h & E & _ & NN & _). injection E as <-.
      apply N in NN. discriminate. }
  destruct (i_dirty i) eqn:D.
  { split; [discriminate|]. intros (rv' & h & _ & _ & _ & F & _). discriminate. }
  destruct (i_head i) as [h|] eqn:H.
  2:{ split; [discriminate|]. intros (rv' & h & _ & _ & _ & _ & F & _). discriminate. }
  destruct (i_dry i) eqn:Y; simpl.
  { split; [|reflexivity]. intros _. exists rv, h. split; [reflexivity|]. split; [exact NE|].
    split; [apply N; reflexivity|]. split; [reflexivity|]. split; [reflexivity|]. left; reflexivity. }
  destruct (ref_name_ok (full_name rv)) eqn:K; simpl.
  - split; [|reflexivity]. intros _. exists rv, h. split; [reflexivity|]. split; [exact NE|].
    split; [apply N; reflexivity|]. split; [reflexivity|]. split; [reflexivity|]. right; exact K.
  - split; [discriminate|]. intros (rv' & h' & E & _ & _ & _ & _ & [F|F]); [discriminate|].
    injection E as <-. congruence.
Qed.

(* ---------- the order in which go-git yields the refs does not matter ---------- *)
Lemma full_tag_perm n1 n2 mj v : Permutation n1 n2 -> full_tag n1 mj v -> full_tag n2 mj v.
Proof. intros Pm (n & Hin & H). exists n. split; [eapply Permutation_in; eassumption | exact H]. Qed.
Lemma scan_error_perm n1 n2 : Permutation n1 n2 -> scan_error n1 -> scan_error n2.
Proof. intros Pm (n & Hin & H). exists n. split; [eapply Permutation_in; eassumption | exact H]. Qed.
Lemma newer_perm rv n1 n2 : Permutation n1 n2 -> newer_than_all rv n1 -> newer_than_all rv n2.
Proof.
  intros Pm [H0 H]. split; [exact H0|]. intros v F. apply H.
  eapply full_tag_perm; [apply Permutation_sym; exact Pm | exact F].
Qed.

Lemma filter_perm {A} (f : A -> bool) l1 l2 : Permutation l1 l2 -> Permutation (filter f l1) (filter f l2).
Proof.
  induction 1 as [|x l l' _ IH|x y l|l l' l'' _ IH1 _ IH2]; simpl.
  - constructor.
  - destruct (f x); [constructor|]; exact IH.
  - destruct (f y), (f x); try apply Permutation_refl. constructor.
  - eapply Permutation_trans; eassumption.
Qed.
Lemma create_perm a b s h : Permutation a b -> Permutation (create a s h) (create b s h).
Proof. intros Pm. unfold create. apply Permutation_app_tail. apply filter_perm. exact Pm. Qed.

Lemma order_independent i1 i2 :
  Permutation (i_refs i1) (i_refs i2) -> i_version i1 = i_version i2 -> i_dirty i1 = i_dirty i2 ->
  i_dry i1 = i_dry i2 -> i_head i1 = i_head i2 ->
  o_exit (decide i1) = o_exit (decide i2) /\ Permutation (o_refs (decide i1)) (o_refs (decide i2)).
Proof.
  intros Pm Ev Ed Ey Eh. pose proof (tag_names_perm _ _ Pm) as Pn.
  unfold decide. rewrite <- Ev, <- Ed, <- Ey, <- Eh.
  destruct (parse (i_version i1)) as [rv|] eqn:P; [|split; [reflexivity | exact Pm]].
  destruct (largest (tag_names (i_refs i1)) (major rv) v0) as [p1|] eqn:L1;
  destruct (largest (tag_names (i_refs i2)) (major rv) v0) as [p2|] eqn:L2.
  - assert (gtb rv p1 = gtb rv p2) as ->.
    { pose proof (largest_spec _ _ _ _ rv (parse_wf _ _ P) v0_wf L1) as S1.
      pose proof (largest_spec _ _ _ _ rv (parse_wf _ _ P) v0_wf L2) as S2.
      destruct (gtb rv p1) eqn:G1, (gtb rv p2) eqn:G2; try reflexivity; exfalso.
      - apply gtb_gt in G1. apply S1 in G1 as [H0 H].
        assert (gt rv p2) as G.
        { apply S2. split; [exact H0|]. intros v F. apply H. eapply full_tag_perm; [apply Permutation_sym; exact Pn | exact F]. }
        apply gtb_gt in G. congruence.
      - apply gtb_gt in G2. apply S2 in G2 as [H0 H].
        assert (gt rv p1) as G.
        { apply S1. split; [exact H0|]. intros v F. apply H. eapply full_tag_perm; [exact Pn | exact F]. }
        apply gtb_gt in G. congruence. }
    destruct (negb (gtb rv p2)); [split; [reflexivity | exact Pm]|].
    destruct (i_dirty i1); [split; [reflexivity | exact Pm]|].
    destruct (i_head i1) as [h|]; [|split; [reflexivity | exact Pm]].
    destruct (i_dry i1); [split; [reflexivity | exact Pm]|].
    destruct (negb (ref_name_ok (full_name rv))); [split; [reflexivity | exact Pm]|].
    split; [reflexivity|]. simpl. apply create_perm, create_perm. exact Pm.
  - exfalso. apply largest_none in L2. apply (scan_error_perm _ _ (Permutation_sym Pn)) in L2.
    apply (largest_none _ (major rv) v0) in L2. congruence.
  - exfalso. apply largest_none in L1. apply (scan_error_perm _ _ Pn) in L1.
    apply (largest_none _ (major rv) v0) in L1. congruence.
  - split; [reflexivity | exact Pm].
Qed.

(* ---------- running the tool again after it tagged: nothing to do ---------- *)
Lemma tag_names_app a b : tag_names (a ++ b) = tag_names a ++ tag_names b.
Proof.
  induction a as [|x a IH]; simpl; [reflexivity|].
  destruct (short_tag (r_name x)); simpl; rewrite IH; reflexivity.
Qed.
Lemma tag_names_filter f rs n : In n (tag_names (filter f rs)) -> In n (tag_names rs).
Proof.
  intros H. apply tag_names_in in H as (r & Hr & Hs). apply filter_In in Hr as [Hr _].
  eapply in_tag_names; eassumption.
Qed.
Lemma split_no_sep c s : forallb (fun b => negb (beqb b c)) s = true -> split_on c s = [s].
Proof.
  induction s as [|b t IH]; simpl; [reflexivity|]. intros H. apply andb_true_iff in H as [Hb Ht].
  apply negb_true_iff in Hb. rewrite Hb, (IH Ht). reflexivity.
Qed.
Lemma scan_major_name rv : scan_name (major_name rv) = ScanSkip.
Proof.
  unfold scan_name. rewrite (split_no_sep c_dot (major_name rv)); [reflexivity|].
  apply hd_split_no_sep.
Qed.

Lemma rerun_nothing i rv h d y hd' : tags_now i rv h ->
  o_exit (decide {| i_refs := o_refs (decide i); i_version := i_version i;
                    i_dirty := d; i_dry := y; i_head := hd' |}) = ExitNothing.
Proof.
  intros T. pose proof T as (_ & _ & P & NoErr & _ & _ & _).
  apply exit_nothing. cbn [i_refs i_version]. exists rv. split; [exact P|].
  rewrite (exact_effect i rv h T), tag_names_app.
  assert (tag_names [new_tag (full_name rv) h; new_tag (major_name rv) h] = [full_name rv; major_name rv]) as ->.
  { unfold tag_names, new_tag. cbn [r_name]. rewrite !short_tag_ref. reflexivity. }
  pose proof (scan_full_name rv (parse_valid _ _ P)) as SF. split.
  - intros (n & Hin & Hs). apply in_app_or in Hin as [Hin|[<-|[<-|[]]]].
    + apply NoErr. exists n. split; [eapply tag_names_filter; exact Hin | exact Hs].
    + congruence.
    + rewrite scan_major_name in Hs. discriminate.
  - intros [_ N]. assert (gt rv rv) as G.
    { apply N. exists (full_name rv). split; [apply in_or_app; right; simpl; auto|]. split; [exact SF | reflexivity]. }
    unfold gt in G. rewrite compare_refl in G by (eapply parse_wf; exact P). discriminate.
Qed.
