(* Model of `mockery migrate` (internal/cmd/migrate.go) and of the key/shape discipline of the
   strict v3 loader (config/config.go, mapstructure ErrorUnused).                    (C19)

   Input  : the v2 configuration after yaml.v3's strict decoding into V2RootConfig, i.e. a
            record with EVERY v2 key the code knows (46 keys, those that are dropped or only
            warned about included) as an option, at the four levels top / package `config` /
            interface `config` / `configs` entries.
   Output : the v3 YAML tree that `run` encodes (generic YAML values [yv]).
   No proofs in this file (see Migrate_proofs.v). *)
From Coq Require Import ZArith.
From Mk Require Import Lib.Bytes.

(* ------------------------------------------------------------------ YAML values *)
Inductive yv :=
| YNull
| YBool (b : bool)
| YInt (z : Z)
| YStr (s : str)
| YList (l : list yv)
| YMap (m : list (str * yv)).

Inductive seg := SK (k : str) | SI (n : nat).
Definition path := list seg.

Fixpoint assoc {A} (k : str) (l : list (str * A)) : option A :=
  match l with
  | [] => None
  | (k', v) :: t => if seqb k k' then Some v else assoc k t
  end.

Definition ystep (s : seg) (v : yv) : option yv :=
  match s, v with
  | SK k, YMap m => assoc k m
  | SI n, YList l => nth_error l n
  | _, _ => None
  end.

(* the node under a key path *)
Fixpoint ysub (p : path) (v : yv) : option yv :=
  match p with
  | [] => Some v
  | s :: p' => match ystep s v with Some v' => ysub p' v' | None => None end
  end.

Definition pre (s : seg) (e : path * yv) : path * yv := (s :: fst e, snd e).

(* canonical key-path -> leaf list; leaves are scalars and empty containers *)
Fixpoint flatten (v : yv) : list (path * yv) :=
  match v with
  | YList l =>
    match l with
    | [] => [([], YList [])]
    | _ => (fix go (n : nat) (l : list yv) : list (path * yv) :=
              match l with
              | [] => []
              | x :: t => map (pre (SI n)) (flatten x) ++ go (S n) t
              end) 0 l
    end
  | YMap m =>
    match m with
    | [] => [([], YMap [])]
    | _ => (fix go (m : list (str * yv)) : list (path * yv) :=
              match m with
              | [] => []
              | (k, x) :: t => map (pre (SK k)) (flatten x) ++ go t
              end) m
    end
  | _ => [([], v)]
  end.

Definition is_scalar (v : yv) : bool :=
  match v with YList _ | YMap _ => false | _ => true end.

(* ------------------------------------------------------------------ v2 side *)
(* V2Config, field by field (yaml tag in the comment where the name differs) *)
Record v2config := {
  v_all : option bool;
  v_anchors : option (list (str * yv));               (* _anchors : map[string]any *)
  v_boilerplate_file : option str;
  v_tags : option str;
  v_case : option str;
  v_config : option str;
  v_cpuprofile : option str;
  v_dir : option str;
  v_disable_config_search : option bool;
  v_disable_deprecation_warnings : option bool;
  v_disabled_deprecation_warnings : option (list str);
  v_disable_func_mocks : option bool;
  v_disable_version_string : option bool;
  v_dry_run : option bool;
  v_exclude : option (list str);
  v_exclude_regex : option str;
  v_exported : option bool;
  v_fail_on_missing : option bool;
  v_filename : option str;
  v_inpackage : option bool;
  v_inpackage_suffix : option bool;
  v_include_auto_generated : option bool;
  v_include_regex : option str;
  v_issue_845_fix : option bool;
  v_keeptree : option bool;
  v_log_level : option str;
  v_mock_build_tags : option str;
  v_mockname : option str;
  v_name : option str;
  v_note : option str;
  v_outpkg : option str;
  v_output : option str;
  v_packageprefix : option str;
  v_print : option bool;
  v_profile : option str;
  v_quiet : option bool;
  v_recursive : option bool;
  v_replace_type : option (list str);
  v_resolve_type_alias : option bool;
  v_srcpkg : option str;
  v_structname : option str;
  v_testonly : option bool;
  v_unroll_variadic : option bool;
  v_version : option bool;
  v_with_expecter : option bool
}.

(* V2InterfaceConfig: `config` is a pointer (absent/null = None; `{}` = Some of the empty
   record), `configs` a slice of values (yaml.v3 drops null entries while decoding). *)
Record v2iface := { i_config : option v2config; i_configs : list v2config }.
(* V2PackageConfig; a null package / interface value decodes to the zero struct *)
Record v2pkg := { p_config : option v2config; p_ifaces : list (str * v2iface) }.
(* V2RootConfig: inline top-level config + packages (a Go map: names are unique) *)
Record v2root := { r_top : v2config; r_pkgs : list (str * v2pkg) }.

(* ------------------------------------------------------------------ migrateConfig *)
Definition obool (o : option bool) : option yv := option_map YBool o.
Definition ostr (o : option str) : option yv := option_map YStr o.
(* `yaml:",omitempty"` on a slice / map: nil and empty are both omitted *)
Definition olist (o : option (list str)) : option yv :=
  match o with Some ((_ :: _) as l) => Some (YList (map YStr l)) | _ => None end.
Definition omap (o : option (list (str * yv))) : option yv :=
  match o with Some ((_ :: _) as m) => Some (YMap m) | _ => None end.

(* keep the entries that are set (omitempty on nil pointers) *)
Fixpoint collapse (l : list (str * option yv)) : list (str * yv) :=
  match l with
  | [] => []
  | (k, Some v) :: t => (k, v) :: collapse t
  | (_, None) :: t => collapse t
  end.

(* v3.TemplateData is created lazily, only when one of the four keys is set *)
Definition td_entries (c : v2config) : list (str * option yv) :=
  [ (B "boilerplate-file", ostr (v_boilerplate_file c));
    (B "mock-build-tags", ostr (v_mock_build_tags c));
    (B "unroll-variadic", obool (v_unroll_variadic c));
    (B "with-expecter", obool (v_with_expecter c)) ].
Definition template_data (c : v2config) : option yv :=
  match collapse (td_entries c) with [] => None | m => Some (YMap m) end.

(* config.Config in field order; [tpl] is the template choice (set by `run` at the top level
   only).  Fields migrateConfig never assigns stay nil and are omitted. *)
Definition cfg_entries (c : v2config) (tpl : option str) : list (str * option yv) :=
  [ (B "all", obool (v_all c));
    (B "_anchors", omap (v_anchors c));
    (B "build-tags", None);
    (B "config", ostr (v_config c));
    (B "dir", ostr (v_dir c));
    (B "exclude-subpkg-regex", olist (v_exclude c));
    (B "exclude-interface-regex", ostr (v_exclude_regex c));
    (B "filename", None);
    (B "force-file-write", None);
    (B "formatter", None);
    (B "include-interface-regex", ostr (v_include_regex c));
    (B "log-level", ostr (v_log_level c));
    (B "structname", ostr (v_mockname c));
    (B "pkgname", ostr (v_outpkg c));
    (B "recursive", obool (v_recursive c));
    (B "replace-type", None);
    (B "require-template-schema-exists", None);
    (B "template", ostr tpl);
    (B "template-data", template_data c);
    (B "template-schema", None) ].

Definition mig_config (c : v2config) (tpl : option str) : list (str * yv) :=
  collapse (cfg_entries c tpl).

Definition mig_cfg_node (c : v2config) : yv := YMap (mig_config c None).

Definition mig_iface (ic : v2iface) : yv :=
  YMap (collapse
    [ (B "config", option_map mig_cfg_node (i_config ic));
      (B "configs", match i_configs ic with
                    | [] => None
                    | l => Some (YList (map mig_cfg_node l))
                    end) ]).

Definition mig_pkg (pc : v2pkg) : yv :=
  YMap (collapse
    [ (B "config", option_map mig_cfg_node (p_config pc));
      (B "interfaces", match p_ifaces pc with
                       | [] => None
                       | l => Some (YMap (map (fun e => (fst e, mig_iface (snd e))) l))
                       end) ]).

Definition testify : str := B "testify".

(* RootConfig: inline Config, then `packages` (no omitempty: always present) *)
Definition mig_root (r : v2root) : yv :=
  YMap (mig_config (r_top r) (Some testify)
        ++ [ (B "packages", YMap (map (fun e => (fst e, mig_pkg (snd e))) (r_pkgs r))) ]).

(* a YAML mapping with a repeated key is rejected by the decoder *)
Fixpoint nodupb (l : list str) : bool :=
  match l with [] => true | x :: t => negb (smem x t) && nodupb t end.
Definition wf_pkg (pc : v2pkg) : bool := nodupb (map fst (p_ifaces pc)).
Definition wf_root (r : v2root) : bool :=
  nodupb (map fst (r_pkgs r)) && forallb (fun e => wf_pkg (snd e)) (r_pkgs r).

Inductive mresult := MOk (t : yv) | MDecodeErr.
Definition migrate (r : v2root) : mresult :=
  if wf_root r then MOk (mig_root r) else MDecodeErr.

(* ------------------------------------------------------------------ levels and mapped keys *)
Inductive level :=
| LTop
| LPkg (p : str)
| LIface (p i : str)
| LSub (p i : str) (n : nat).

Definition kpackages := B "packages".
Definition kinterfaces := B "interfaces".
Definition kconfig := B "config".
Definition kconfigs := B "configs".

(* where the configuration node of a level sits in the v3 tree *)
Definition level_path (lv : level) : path :=
  match lv with
  | LTop => []
  | LPkg p => [SK kpackages; SK p; SK kconfig]
  | LIface p i => [SK kpackages; SK p; SK kinterfaces; SK i; SK kconfig]
  | LSub p i n => [SK kpackages; SK p; SK kinterfaces; SK i; SK kconfigs; SI n]
  end.

Definition bind {A B} (o : option A) (f : A -> option B) : option B :=
  match o with Some x => f x | None => None end.

(* the v2 configuration record of a level *)
Definition v2_at (r : v2root) (lv : level) : option v2config :=
  match lv with
  | LTop => Some (r_top r)
  | LPkg p => bind (assoc p (r_pkgs r)) p_config
  | LIface p i => bind (assoc p (r_pkgs r)) (fun pc => bind (assoc i (p_ifaces pc)) i_config)
  | LSub p i n => bind (assoc p (r_pkgs r)) (fun pc => bind (assoc i (p_ifaces pc))
                       (fun ic => nth_error (i_configs ic) n))
  end.

(* the v2 settings that have a v3 counterpart *)
Inductive mkey :=
| KAll | KDir | KMockname | KOutpkg | KIncludeRegex | KExcludeRegex | KExclude | KRecursive
| KLogLevel | KConfig | KAnchors | KBoilerplateFile | KMockBuildTags | KUnrollVariadic
| KWithExpecter.

Definition ktd := B "template-data".

(* v3 name / template-data key, relative to the level's configuration node *)
Definition place (k : mkey) : path :=
  match k with
  | KAll => [SK (B "all")]
  | KDir => [SK (B "dir")]
  | KMockname => [SK (B "structname")]
  | KOutpkg => [SK (B "pkgname")]
  | KIncludeRegex => [SK (B "include-interface-regex")]
  | KExcludeRegex => [SK (B "exclude-interface-regex")]
  | KExclude => [SK (B "exclude-subpkg-regex")]
  | KRecursive => [SK (B "recursive")]
  | KLogLevel => [SK (B "log-level")]
  | KConfig => [SK (B "config")]
  | KAnchors => [SK (B "_anchors")]
  | KBoilerplateFile => [SK ktd; SK (B "boilerplate-file")]
  | KMockBuildTags => [SK ktd; SK (B "mock-build-tags")]
  | KUnrollVariadic => [SK ktd; SK (B "unroll-variadic")]
  | KWithExpecter => [SK ktd; SK (B "with-expecter")]
  end.

(* the v2 value of a mapped key, as a YAML value *)
Definition v2_val (c : v2config) (k : mkey) : option yv :=
  match k with
  | KAll => obool (v_all c)
  | KDir => ostr (v_dir c)
  | KMockname => ostr (v_mockname c)
  | KOutpkg => ostr (v_outpkg c)
  | KIncludeRegex => ostr (v_include_regex c)
  | KExcludeRegex => ostr (v_exclude_regex c)
  | KExclude => option_map (fun l => YList (map YStr l)) (v_exclude c)
  | KRecursive => obool (v_recursive c)
  | KLogLevel => ostr (v_log_level c)
  | KConfig => ostr (v_config c)
  | KAnchors => option_map YMap (v_anchors c)
  | KBoilerplateFile => ostr (v_boilerplate_file c)
  | KMockBuildTags => ostr (v_mock_build_tags c)
  | KUnrollVariadic => obool (v_unroll_variadic c)
  | KWithExpecter => obool (v_with_expecter c)
  end.

(* an empty list / mapping is the same setting as an absent one (omitempty on output, nil on load) *)
Definition norm (o : option yv) : option yv :=
  match o with
  | Some (YList []) | Some (YMap []) => None
  | _ => o
  end.

(* names as they appear in a tree *)
Definition ykeys (o : option yv) : list str :=
  match o with Some (YMap m) => map fst m | _ => [] end.
Definition ylen (o : option yv) : nat :=
  match o with Some (YList l) => length l | _ => 0 end.

(* ------------------------------------------------------------------ strict v3 loader *)
(* what mapstructure (ErrorUnused, no weak typing) accepts for each key of config.Config *)
Inductive ty := TBool | TStr | TStrList | TAnyMap | TReplace.

Definition config_keys : list (str * ty) :=
  [ (B "all", TBool); (B "_anchors", TAnyMap); (B "build-tags", TStr); (B "config", TStr);
    (B "dir", TStr); (B "exclude-subpkg-regex", TStrList); (B "exclude-interface-regex", TStr);
    (B "filename", TStr); (B "force-file-write", TBool); (B "formatter", TStr);
    (B "include-interface-regex", TStr); (B "log-level", TStr); (B "structname", TStr);
    (B "pkgname", TStr); (B "recursive", TBool); (B "replace-type", TReplace);
    (B "require-template-schema-exists", TBool); (B "template", TStr);
    (B "template-data", TAnyMap); (B "template-schema", TStr) ].

(* mapstructure matches a struct field to the map key of exactly that name, else to a key that
   differs only in letter case (strings.EqualFold; modelled for ASCII letters - the field names
   have no others); with ErrorUnused every key must be matched, so two keys of one mapping that
   fold to the same field are an error.  At the top level the file is first merged (by exact
   key) into the default configuration, which has all twenty Config keys in lower case: there
   only the exact spelling of a Config key survives. *)
Definition lower_byte (b : byte) : byte :=
  let n := Byte.to_nat b in
  if Nat.leb 65 n && Nat.leb n 90
  then match Byte.of_nat (n + 32) with Some c => c | None => b end
  else b.
Definition lower (k : str) : str := map lower_byte k.
Definition keq (a b : str) : bool := seqb (lower a) (lower b).
Fixpoint assoc_ci {A} (k : str) (l : list (str * A)) : option A :=
  match l with
  | [] => None
  | (k', v) :: t => if keq k k' then Some v else assoc_ci k t
  end.
Definition nodup_ci (l : list str) : bool := nodupb (map lower l).

Definition is_str (v : yv) : bool := match v with YStr _ => true | _ => false end.
Definition is_null (v : yv) : bool := match v with YNull => true | _ => false end.

Definition replace_leaf (v : yv) : bool :=
  match v with
  | YNull => true
  | YMap m => forallb (fun e => (seqb (fst e) (B "pkg-path") || seqb (fst e) (B "type-name"))
                                && (is_str (snd e) || match snd e with YNull => true | _ => false end)) m
  | _ => false
  end.
Definition map_of (f : yv -> bool) (v : yv) : bool :=
  match v with YNull => true | YMap m => forallb (fun e => f (snd e)) m | _ => false end.

Definition has_ty (t : ty) (v : yv) : bool :=
  match v with
  | YNull => true                      (* a null leaves the field at its zero value *)
  | _ =>
    match t, v with
    | TBool, YBool _ => true
    | TStr, YStr _ => true
    | TStrList, YList l => forallb (fun x => is_str x || is_null x) l   (* a null element is "" *)
    | TAnyMap, YMap _ => true
    | TReplace, _ => map_of (map_of replace_leaf) v
    | _, _ => false
    end
  end.

Definition check_cfg (m : list (str * yv)) : bool :=
  nodup_ci (map fst m) &&
  forallb (fun e => match assoc_ci (fst e) config_keys with
                    | Some t => has_ty t (snd e)
                    | None => false
                    end) m.
Definition check_cfg_node (v : yv) : bool :=
  match v with YNull => true | YMap m => check_cfg m | _ => false end.

Definition check_iface (v : yv) : bool :=
  match v with
  | YNull => true
  | YMap m => nodup_ci (map fst m) && forallb (fun e =>
      if keq (fst e) kconfig then check_cfg_node (snd e)
      else if keq (fst e) kconfigs then
        match snd e with YNull => true | YList l => forallb check_cfg_node l | _ => false end
      else false) m
  | _ => false
  end.

Definition check_pkg (v : yv) : bool :=
  match v with
  | YNull => true
  | YMap m => nodup_ci (map fst m) && forallb (fun e =>
      if keq (fst e) kconfig then check_cfg_node (snd e)
      else if keq (fst e) kinterfaces then map_of check_iface (snd e)
      else false) m
  | _ => false
  end.

(* top level: the squashed Config keys (exact spelling, see above) plus `packages` *)
(* the loader is run with `--config <file>`: the flag value replaces whatever the file has under
   the top-level key `config` before anything is decoded *)
Definition check_top_entry (e : str * yv) : bool :=
  if seqb (fst e) kconfig then true
  else match assoc (fst e) config_keys with Some t => has_ty t (snd e) | None => false end.
Definition check_root (v : yv) : bool :=
  match v with
  | YMap m => nodup_ci (map fst m) && forallb (fun e =>
      if keq (fst e) kpackages then map_of check_pkg (snd e)
      else check_top_entry e) m
  | _ => false
  end.

Inductive lresult := LoadOk | LoadErr | LoadPanic.

(* A null entry in a `configs` list passes the decoder (nil *Config).  On the pinned tree it was
   then dereferenced by InterfaceConfig.Initialize -> mergeConfigs (run-time panic); since the
   repair "a null entry in an interface's configs list is an empty config" it loads like `{}`.
   (migrate never writes one: [root_null_sub_mig].) *)
Definition iface_null_sub (v : yv) : bool :=
  match v with
  | YMap m => existsb (fun e => keq (fst e) kconfigs &&
                         match snd e with YList l => existsb is_null l | _ => false end) m
  | _ => false
  end.
Definition under (k : str) (f : yv -> bool) (v : yv) : bool :=
  match v with
  | YMap m => existsb (fun e => keq (fst e) k &&
                         match snd e with YMap im => existsb (fun e' => f (snd e')) im | _ => false end) m
  | _ => false
  end.
Definition pkg_null_sub : yv -> bool := under kinterfaces iface_null_sub.
Definition root_null_sub : yv -> bool := under kpackages pkg_null_sub.

(* The strings the loader compiles as regular expressions (RootConfig.Initialize ->
   Config.validateRegexes at every level, after the levels are merged: every value of
   include-interface-regex / exclude-interface-regex and every element of exclude-subpkg-regex
   anywhere in the file; a null element is the empty string).  Looked up per mapping - this is
   consulted only after [check_root], i.e. when keys are unique up to letter case. *)
Definition kinc : str := B "include-interface-regex".
Definition kexc : str := B "exclude-interface-regex".
Definition ksub : str := B "exclude-subpkg-regex".
Definition re_elem (v : yv) : list str :=
  match v with YStr s => [s] | YNull => [[]] | _ => [] end.
Definition re_scalar (o : option yv) : list str :=
  match o with Some (YStr s) => [s] | _ => [] end.
Definition cfg_regexes (m : list (str * yv)) : list str :=
  (match assoc_ci ksub m with Some (YList l) => flat_map re_elem l | _ => [] end)
  ++ re_scalar (assoc_ci kexc m) ++ re_scalar (assoc_ci kinc m).
Definition node_regexes (v : yv) : list str :=
  match v with YMap m => cfg_regexes m | _ => [] end.
Definition onode_regexes (o : option yv) : list str :=
  match o with Some v => node_regexes v | None => [] end.
Definition iface_regexes (v : yv) : list str :=
  match v with
  | YMap m => onode_regexes (assoc_ci kconfig m)
              ++ match assoc_ci kconfigs m with Some (YList l) => flat_map node_regexes l | _ => [] end
  | _ => []
  end.
Definition pkg_regexes (v : yv) : list str :=
  match v with
  | YMap m => onode_regexes (assoc_ci kconfig m)
              ++ match assoc_ci kinterfaces m with
                 | Some (YMap im) => flat_map (fun e => iface_regexes (snd e)) im
                 | _ => []
                 end
  | _ => []
  end.
Definition tree_regexes (v : yv) : list str :=
  match v with
  | YMap m => cfg_regexes m
              ++ match assoc_ci kpackages m with
                 | Some (YMap pm) => flat_map (fun e => pkg_regexes (snd e)) pm
                 | _ => []
                 end
  | _ => []
  end.

(* ... and the same values on the v2 side (exclude / exclude-regex / include-regex of every level) *)
Definition opt1 (o : option str) : list str := match o with Some s => [s] | None => [] end.
Definition cfg_v2_regexes (c : v2config) : list str :=
  (match v_exclude c with Some l => l | None => [] end)
  ++ opt1 (v_exclude_regex c) ++ opt1 (v_include_regex c).
Definition ocfg_v2_regexes (o : option v2config) : list str :=
  match o with Some c => cfg_v2_regexes c | None => [] end.
Definition iface_v2_regexes (ic : v2iface) : list str :=
  ocfg_v2_regexes (i_config ic) ++ flat_map cfg_v2_regexes (i_configs ic).
Definition pkg_v2_regexes (pc : v2pkg) : list str :=
  ocfg_v2_regexes (p_config pc) ++ flat_map (fun e => iface_v2_regexes (snd e)) (p_ifaces pc).
Definition v2_regexes (r : v2root) : list str :=
  cfg_v2_regexes (r_top r) ++ flat_map (fun e => pkg_v2_regexes (snd e)) (r_pkgs r).

(* [nil_default]: whether the default configuration that the file is merged into has a nil
   `_anchors` map.  koanf's maps.Merge then writes into that nil map as soon as the file's
   top-level `_anchors` has one entry (Go run-time panic, before any decoding).  The loader of
   the tree this model describes has a non-nil default ([load]).
   [re_ok]: which strings Go's regexp package compiles (RE2 syntax; a parameter of the model -
   in the correspondence it is Go's own regexp.Compile, asked through harness/go/drv_regex). *)
Definition load_with (nil_default : bool) (re_ok : str -> bool) (v : yv) : lresult :=
  match v with
  | YNull => LoadOk                                   (* empty file *)
  | YMap m =>
    if nil_default && match assoc (B "_anchors") m with Some (YMap (_ :: _)) => true | _ => false end
    then LoadPanic
    else if negb (check_root v) then LoadErr
    else if negb (forallb re_ok (tree_regexes v)) then LoadErr      (* "invalid `...-regex`: error parsing regexp" *)
    else LoadOk
  | _ => LoadErr
  end.
Definition load : (str -> bool) -> yv -> lresult := load_with false.

(* ------------------------------------------------------------------ the command on a file system *)
Inductive exit_class := ExitOk | ExitErr.

Section Cmd.
  (* yaml.v3: strict decoding of the file's bytes (None = not a decodable v2 file) and
     encoding of the v3 tree; which paths can be opened for writing. *)
  Variable parse : str -> option v2root.
  Variable encode : yv -> str.
  Variable writable : str -> bool.

  Definition fs := str -> option str.
  Definition upd (f : fs) (p c : str) : fs := fun q => if seqb q p then Some c else f q.

  (* `run`: read + decode first; the output is opened (O_CREATE|O_TRUNC) only afterwards *)
  Definition run_cmd (f : fs) (inp outp : str) : fs * exit_class :=
    match f inp with
    | None => (f, ExitErr)
    | Some bytes =>
      match parse bytes with
      | None => (f, ExitErr)
      | Some r =>
        match migrate r with
        | MDecodeErr => (f, ExitErr)
        | MOk t => if writable outp then (upd f outp (encode t), ExitOk) else (f, ExitErr)
        end
      end
    end.
End Cmd.

(* ------------------------------------------------------------------ the file as it is read back *)
(* yaml.v3's encoder writes a mapping key that is the string `<<` unquoted; every YAML 1.1 reader
   (yaml.v3 in the loader, PyYAML) then takes it for a merge key: the value must be a mapping
   or a list of mappings (otherwise the file does not parse), its entries are spliced into the
   surrounding mapping unless a key is already there, and the key `<<` itself disappears.
   [reread v] = what is read from the file written for [v] (None = does not parse).
   Known finding C19-merge-key; guard = [v2_merge_free]. *)
Definition merge_key : str := B "<<".
Definition is_merge (k : str) : bool := seqb k merge_key.

Fixpoint has_merge_key (v : yv) : bool :=
  match v with
  | YList l => existsb has_merge_key l
  | YMap m => existsb (fun e => is_merge (fst e) || has_merge_key (snd e)) m
  | _ => false
  end.

Fixpoint all_some {A} (l : list (option A)) : option (list A) :=
  match l with
  | [] => Some []
  | Some x :: t => option_map (cons x) (all_some t)
  | None :: _ => None
  end.

Definition entry_opt (e : str * option yv) : option (str * yv) := option_map (pair (fst e)) (snd e).

Definition merge_sources (v : yv) : option (list (str * yv)) :=
  match v with
  | YMap m => Some m
  | YList l => fold_right (fun x acc => match x, acc with
                                        | YMap m, Some a => Some (m ++ a)
                                        | _, _ => None
                                        end) (Some []) l
  | _ => None
  end.

(* splice in the entries whose key is not there yet (explicit keys and earlier sources win) *)
Fixpoint add_missing (src dst : list (str * yv)) : list (str * yv) :=
  match src with
  | [] => dst
  | (k, x) :: t => match assoc k dst with
                   | Some _ => add_missing t dst
                   | None => add_missing t (dst ++ [(k, x)])
                   end
  end.

Fixpoint reread (v : yv) : option yv :=
  match v with
  | YList l => option_map YList (all_some (map reread l))
  | YMap m =>
    match all_some (map (fun e => entry_opt (fst e, reread (snd e))) m) with
    | None => None
    | Some m' =>
      match assoc merge_key m' with
      | None => Some (YMap m')
      | Some mv =>
        match merge_sources mv with
        | Some src => Some (YMap (add_missing src (filter (fun e => negb (is_merge (fst e))) m')))
        | None => None
        end
      end
    end
  | _ => Some v
  end.

(* guard, on the v2 side: no package name, no interface name and no key inside an `_anchors`
   value is the string `<<` (all other keys of the output are fixed v3 names) *)
Definition cfg_merge_free (c : v2config) : bool :=
  match v_anchors c with Some m => negb (has_merge_key (YMap m)) | None => true end.
Definition ocfg_merge_free (o : option v2config) : bool :=
  match o with Some c => cfg_merge_free c | None => true end.
Definition iface_merge_free (ic : v2iface) : bool :=
  ocfg_merge_free (i_config ic) && forallb cfg_merge_free (i_configs ic).
Definition pkg_merge_free (pc : v2pkg) : bool :=
  ocfg_merge_free (p_config pc) &&
  forallb (fun e => negb (is_merge (fst e)) && iface_merge_free (snd e)) (p_ifaces pc).
Definition v2_merge_free (r : v2root) : bool :=
  cfg_merge_free (r_top r) &&
  forallb (fun e => negb (is_merge (fst e)) && pkg_merge_free (snd e)) (r_pkgs r).
