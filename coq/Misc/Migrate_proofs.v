(* Proofs about the model of `mockery migrate` (Misc/Migrate.v).   (C19) *)
From Coq Require Import ZArith.
From Mk Require Import Lib.Bytes Misc.Migrate.

(* ------------------------------------------------------------------ association lists *)
Lemma nodupb_NoDup l : nodupb l = true -> NoDup l.
Proof.
  induction l as [|x t IH]; simpl; intros H; [constructor|].
  apply andb_true_iff in H as [Hx Ht]. constructor; [|apply IH; exact Ht].
  apply negb_true_iff in Hx. apply smem_false; exact Hx.
Qed.

Lemma assoc_in {A} k (l : list (str * A)) v : assoc k l = Some v -> In (k, v) l.
Proof.
  induction l as [|[k' v'] t IH]; simpl; [discriminate|].
  destruct (seqb k k') eqn:E.
  - intros H; injection H as <-. apply seqb_eq in E; subst. now left.
  - intros H; right; apply IH; exact H.
Qed.

Lemma in_assoc {A} k (l : list (str * A)) v :
  NoDup (map fst l) -> In (k, v) l -> assoc k l = Some v.
Proof.
  induction l as [|[k' v'] t IH]; simpl; [tauto|]. intros ND [H|H].
  - injection H as -> ->. rewrite seqb_refl. reflexivity.
  - inversion ND as [|? ? Hk ND']; subst.
    destruct (seqb k k') eqn:E.
    + apply seqb_eq in E; subst. exfalso. apply Hk.
      apply in_map_iff. exists (k', v). split; [reflexivity | exact H].
    + apply IH; assumption.
Qed.

Lemma assoc_map {A C} (f : A -> C) k (l : list (str * A)) :
  assoc k (map (fun e => (fst e, f (snd e))) l) = option_map f (assoc k l).
Proof.
  induction l as [|[k' v'] t IH]; simpl; [reflexivity|].
  destruct (seqb k k'); [reflexivity | exact IH].
Qed.

Lemma map_fst_map {A C} (f : A -> C) (l : list (str * A)) :
  map fst (map (fun e => (fst e, f (snd e))) l) = map fst l.
Proof. induction l as [|[k v] t IH]; simpl; [reflexivity | now rewrite IH]. Qed.

Lemma in_collapse k v l : In (k, v) (collapse l) <-> In (k, Some v) l.
Proof.
  induction l as [|[k' [v'|]] t IH]; simpl; [tauto | |].
  - rewrite IH. split; (intros [H|H]; [left; congruence | right; exact H]).
  - rewrite IH. split; [intros H; right; exact H | intros [H|H]; [discriminate | exact H]].
Qed.

Lemma collapse_keys_incl l k : In k (map fst (collapse l)) -> In k (map fst l).
Proof.
  intros H. apply in_map_iff in H as [[k' v] [<- H]]. apply in_collapse in H.
  apply in_map_iff. exists (k', Some v). split; [reflexivity | exact H].
Qed.

Lemma collapse_NoDup l : NoDup (map fst l) -> NoDup (map fst (collapse l)).
Proof.
  induction l as [|[k [v|]] t IH]; simpl; intros ND; [constructor | |];
    inversion ND as [|? ? Hk ND']; subst.
  - constructor; [|apply IH; exact ND']. intros H; apply Hk. apply collapse_keys_incl; exact H.
  - apply IH; exact ND'.
Qed.

(* with distinct keys, looking a key up after dropping the unset entries is looking it up before *)
Lemma assoc_collapse k l :
  NoDup (map fst l) ->
  assoc k (collapse l) = match assoc k l with Some (Some v) => Some v | _ => None end.
Proof.
  induction l as [|[k' [v|]] t IH]; simpl; intros ND; [reflexivity | |];
    inversion ND as [|? ? Hk ND']; subst.
  - destruct (seqb k k'); [reflexivity | apply IH; exact ND'].
  - destruct (seqb k k') eqn:E; [|apply IH; exact ND'].
    apply seqb_eq in E; subst.
    destruct (assoc k' (collapse t)) eqn:F; [|reflexivity].
    exfalso. apply Hk. apply collapse_keys_incl.
    apply assoc_in in F. apply in_map_iff. exists (k', y). split; [reflexivity | exact F].
Qed.

Lemma assoc_app_l {A} k (a b : list (str * A)) v : assoc k a = Some v -> assoc k (a ++ b) = Some v.
Proof.
  induction a as [|[k' v'] t IH]; simpl; [discriminate|].
  destruct (seqb k k'); [tauto | exact IH].
Qed.
Lemma assoc_app_r {A} k (a b : list (str * A)) : ~ In k (map fst a) -> assoc k (a ++ b) = assoc k b.
Proof.
  induction a as [|[k' v'] t IH]; simpl; [reflexivity|]. intros H.
  destruct (seqb k k') eqn:E; [apply seqb_eq in E; subst; tauto|]. apply IH. tauto.
Qed.
Lemma assoc_none_notin {A} k (l : list (str * A)) : assoc k l = None -> ~ In k (map fst l).
Proof.
  induction l as [|[k' v'] t IH]; simpl; [tauto|].
  destruct (seqb k k') eqn:E; [discriminate|]. apply seqb_neq in E.
  intros H [F|F]; [congruence | exact (IH H F)].
Qed.

(* ------------------------------------------------------------------ paths *)
Lemma ysub_app p q v : ysub (p ++ q) v = bind (ysub p v) (ysub q).
Proof.
  revert v; induction p as [|s p IH]; intros v; simpl; [reflexivity|].
  destruct (ystep s v); [apply IH | reflexivity].
Qed.

(* ------------------------------------------------------------------ the fixed key lists *)
Lemma cfg_keys_nodup c tpl : NoDup (map fst (cfg_entries c tpl)).
Proof. apply nodupb_NoDup. vm_compute. reflexivity. Qed.
Lemma td_keys_nodup c : NoDup (map fst (td_entries c)).
Proof. apply nodupb_NoDup. vm_compute. reflexivity. Qed.

Lemma assoc_cfg k c tpl :
  assoc k (mig_config c tpl) =
  match assoc k (cfg_entries c tpl) with Some (Some v) => Some v | _ => None end.
Proof. apply assoc_collapse, cfg_keys_nodup. Qed.

Lemma mig_config_NoDup c tpl : NoDup (map fst (mig_config c tpl)).
Proof. apply collapse_NoDup, cfg_keys_nodup. Qed.

(* ------------------------------------------------------------------ key_preserved, one level *)
Lemma template_data_get c k :
  bind (template_data c) (ysub [SK k]) =
  match assoc k (td_entries c) with Some (Some v) => Some v | _ => None end.
Proof.
  unfold template_data.
  pose proof (assoc_collapse k (td_entries c) (td_keys_nodup c)) as H.
  destruct (collapse (td_entries c)) as [|e m] eqn:E.
  - simpl in *. exact H.
  - cbn [bind ysub ystep]. rewrite H.
    destruct (assoc k (td_entries c)) as [[v|]|]; reflexivity.
Qed.

(* each single-segment key: compute the lookup in the concrete entry list *)
Ltac cfg_lookup c tpl :=
  cbn [place ysub ystep]; rewrite assoc_cfg; unfold cfg_entries;
  cbn [assoc]; repeat (match goal with |- context [seqb ?a ?b] =>
                         let r := eval vm_compute in (seqb a b) in change (seqb a b) with r end);
  cbn [v2_val].

Ltac seqb_compute :=
  repeat (match goal with |- context [seqb ?a ?b] =>
            let r := eval vm_compute in (seqb a b) in change (seqb a b) with r end).

Lemma cfg_td_get c tpl : ysub [SK ktd] (YMap (mig_config c tpl)) = template_data c.
Proof. cfg_lookup c tpl. destruct (template_data c); reflexivity. Qed.

Lemma td_key_get c tpl k2 :
  ysub [SK ktd; SK k2] (YMap (mig_config c tpl)) =
  match assoc k2 (td_entries c) with Some (Some v) => Some v | _ => None end.
Proof.
  change [SK ktd; SK k2] with ([SK ktd] ++ [SK k2]).
  rewrite ysub_app, cfg_td_get. apply template_data_get.
Qed.

Ltac td_lookup := unfold place; rewrite td_key_get; unfold td_entries; cbn [assoc]; seqb_compute; cbn [v2_val].

Lemma cfg_key_preserved c tpl k :
  ysub (place k) (YMap (mig_config c tpl)) = norm (v2_val c k).
Proof.
  destruct k.
  - cfg_lookup c tpl. destruct (v_all c); reflexivity.
  - cfg_lookup c tpl. destruct (v_dir c); reflexivity.
  - cfg_lookup c tpl. destruct (v_mockname c); reflexivity.
  - cfg_lookup c tpl. destruct (v_outpkg c); reflexivity.
  - cfg_lookup c tpl. destruct (v_include_regex c); reflexivity.
  - cfg_lookup c tpl. destruct (v_exclude_regex c); reflexivity.
  - cfg_lookup c tpl. destruct (v_exclude c) as [[|x l]|]; cbn; reflexivity.
  - cfg_lookup c tpl. destruct (v_recursive c); reflexivity.
  - cfg_lookup c tpl. destruct (v_log_level c); reflexivity.
  - cfg_lookup c tpl. destruct (v_config c); reflexivity.
  - cfg_lookup c tpl. destruct (v_anchors c) as [[|x l]|]; cbn; reflexivity.
  - td_lookup. destruct (v_boilerplate_file c); reflexivity.
  - td_lookup. destruct (v_mock_build_tags c); reflexivity.
  - td_lookup. destruct (v_unroll_variadic c); reflexivity.
  - td_lookup. destruct (v_with_expecter c); reflexivity.
Qed.
