(* Proofs about the model of `mockery migrate` (Misc/Migrate.v).   (C19) *)
From Coq Require Import ZArith.
From Mk Require Import Lib.Bytes Misc.Migrate.

(* ------------------------------------------------------------------ association lists *)
Lemma nodupb_NoDup l : nodupb l = true -> NoDup l.
Proof.
  induction l as [|x t IH]; simpl; intros H; [constructor|].
  apply andb_true_iff in H as [Hx Ht]. constructor; [|apply IH; exact Ht].
  apply negb_true_iff in Hx. apply smem_false; exact Hx.
Qed.

Lemma assoc_in {A} k (l : list (str * A)) v : assoc k l = Some v -> In (k, v) l.
Proof.
  induction l as [|[k' v'] t IH]; simpl; [discriminate|].
  destruct (seqb k k') eqn:E.
  - intros H; injection H as <-. apply seqb_eq in E; subst. now left.
  - intros H; right; apply IH; exact H.
Qed.

Lemma in_assoc {A} k (l : list (str * A)) v :
  NoDup (map fst l) -> In (k, v) l -> assoc k l = Some v.
Proof.
  induction l as [|[k' v'] t IH]; simpl; [tauto|]. intros ND [H|H].
  - injection H as -> ->. rewrite seqb_refl. reflexivity.
  - inversion ND as [|? ? Hk ND']; subst.
    destruct (seqb k k') eqn:E.
    + apply seqb_eq in E; subst. exfalso. apply Hk.
      apply in_map_iff. exists (k', v). split; [reflexivity | exact H].
    + apply IH; assumption.
Qed.

Lemma assoc_map {A C} (f : A -> C) k (l : list (str * A)) :
  assoc k (map (fun e => (fst e, f (snd e))) l) = option_map f (assoc k l).
Proof.
  induction l as [|[k' v'] t IH]; simpl; [reflexivity|].
  destruct (seqb k k'); [reflexivity | exact IH].
Qed.

Lemma map_fst_map {A C} (f : A -> C) (l : list (str * A)) :
  map fst (map (fun e => (fst e, f (snd e))) l) = map fst l.
Proof. induction l as [|[k v] t IH]; simpl; [reflexivity | now rewrite IH]. Qed.

Lemma in_collapse k v l : In (k, v) (collapse l) <-> In (k, Some v) l.
Proof.
  induction l as [|[k' [v'|]] t IH]; simpl; [tauto | |].
  - rewrite IH. split; (intros [H|H]; [left; congruence | right; exact H]).
  - rewrite IH. split; [intros H; right; exact H | intros [H|H]; [discriminate | exact H]].
Qed.

Lemma collapse_keys_incl l k : In k (map fst (collapse l)) -> In k (map fst l).
Proof.
  intros H. apply in_map_iff in H as [[k' v] [<- H]]. apply in_collapse in H.
  apply in_map_iff. exists (k', Some v). split; [reflexivity | exact H].
Qed.

Lemma collapse_NoDup l : NoDup (map fst l) -> NoDup (map fst (collapse l)).
Proof.
  induction l as [|[k [v|]] t IH]; simpl; intros ND; [constructor | |];
    inversion ND as [|? ? Hk ND']; subst.
  - constructor; [|apply IH; exact ND']. intros H; apply Hk. apply collapse_keys_incl; exact H.
  - apply IH; exact ND'.
Qed.

(* with distinct keys, looking a key up after dropping the unset entries is looking it up before *)
Lemma assoc_collapse k l :
  NoDup (map fst l) ->
  assoc k (collapse l) = match assoc k l with Some (Some v) => Some v | _ => None end.
Proof.
  induction l as [|[k' [v|]] t IH]; simpl; intros ND; [reflexivity | |];
    inversion ND as [|? ? Hk ND']; subst.
  - destruct (seqb k k'); [reflexivity | apply IH; exact ND'].
  - destruct (seqb k k') eqn:E; [|apply IH; exact ND'].
    apply seqb_eq in E; subst.
    destruct (assoc k' (collapse t)) eqn:F; [|reflexivity].
    exfalso. apply Hk. apply collapse_keys_incl.
    apply assoc_in in F. apply in_map_iff. exists (k', y). split; [reflexivity | exact F].
Qed.

Lemma assoc_app_l {A} k (a b : list (str * A)) v : assoc k a = Some v -> assoc k (a ++ b) = Some v.
Proof.
  induction a as [|[k' v'] t IH]; simpl; [discriminate|].
  destruct (seqb k k'); [tauto | exact IH].
Qed.
Lemma assoc_app_r {A} k (a b : list (str * A)) : ~ In k (map fst a) -> assoc k (a ++ b) = assoc k b.
Proof.
  induction a as [|[k' v'] t IH]; simpl; [reflexivity|]. intros H.
  destruct (seqb k k') eqn:E; [apply seqb_eq in E; subst; tauto|]. apply IH. tauto.
Qed.
Lemma assoc_none_notin {A} k (l : list (str * A)) : assoc k l = None -> ~ In k (map fst l).
Proof.
  induction l as [|[k' v'] t IH]; simpl; [tauto|].
  destruct (seqb k k') eqn:E; [discriminate|]. apply seqb_neq in E.
  intros H [F|F]; [congruence | exact (IH H F)].
Qed.

(* ------------------------------------------------------------------ paths *)
Lemma ysub_app p q v : ysub (p ++ q) v = bind (ysub p v) (ysub q).
Proof.
  revert v; induction p as [|s p IH]; intros v; simpl; [reflexivity|].
  destruct (ystep s v); [apply IH | reflexivity].
Qed.

(* ------------------------------------------------------------------ the fixed key lists *)
Lemma cfg_keys_nodup c tpl : NoDup (map fst (cfg_entries c tpl)).
Proof. apply nodupb_NoDup. vm_compute. reflexivity. Qed.
Lemma td_keys_nodup c : NoDup (map fst (td_entries c)).
Proof. apply nodupb_NoDup. vm_compute. reflexivity. Qed.

Lemma assoc_cfg k c tpl :
  assoc k (mig_config c tpl) =
  match assoc k (cfg_entries c tpl) with Some (Some v) => Some v | _ => None end.
Proof. apply assoc_collapse, cfg_keys_nodup. Qed.

Lemma mig_config_NoDup c tpl : NoDup (map fst (mig_config c tpl)).
Proof. apply collapse_NoDup, cfg_keys_nodup. Qed.

(* ------------------------------------------------------------------ key_preserved, one level *)
Lemma template_data_get c k :
  bind (template_data c) (ysub [SK k]) =
  match assoc k (td_entries c) with Some (Some v) => Some v | _ => None end.
Proof.
  unfold template_data.
  pose proof (assoc_collapse k (td_entries c) (td_keys_nodup c)) as H.
  destruct (collapse (td_entries c)) as [|e m] eqn:E.
  - simpl in *. exact H.
  - cbn [bind ysub ystep]. rewrite H.
    destruct (assoc k (td_entries c)) as [[v|]|]; reflexivity.
Qed.

(* each single-segment key: compute the lookup in the concrete entry list *)
Ltac cfg_lookup c tpl :=
  cbn [place ysub ystep]; rewrite assoc_cfg; unfold cfg_entries;
  cbn [assoc]; repeat (match goal with |- context [seqb ?a ?b] =>
                         let r := eval vm_compute in (seqb a b) in change (seqb a b) with r end);
  cbn [v2_val].

Ltac seqb_compute :=
  repeat (match goal with |- context [seqb ?a ?b] =>
            let r := eval vm_compute in (seqb a b) in change (seqb a b) with r end).
Ltac keq_compute :=
  repeat (match goal with |- context [keq ?a ?b] =>
            let r := eval vm_compute in (keq a b) in change (keq a b) with r end).

Lemma cfg_td_get c tpl : ysub [SK ktd] (YMap (mig_config c tpl)) = template_data c.
Proof. cfg_lookup c tpl. destruct (template_data c); reflexivity. Qed.

Lemma td_key_get c tpl k2 :
  ysub [SK ktd; SK k2] (YMap (mig_config c tpl)) =
  match assoc k2 (td_entries c) with Some (Some v) => Some v | _ => None end.
Proof.
  change [SK ktd; SK k2] with ([SK ktd] ++ [SK k2]).
  rewrite ysub_app, cfg_td_get. apply template_data_get.
Qed.

Ltac td_lookup := unfold place; rewrite td_key_get; unfold td_entries; cbn [assoc]; seqb_compute; cbn [v2_val].

Lemma cfg_key_preserved c tpl k :
  ysub (place k) (YMap (mig_config c tpl)) = norm (v2_val c k).
Proof.
  destruct k.
  - cfg_lookup c tpl. destruct (v_all c); reflexivity.
  - cfg_lookup c tpl. destruct (v_dir c); reflexivity.
  - cfg_lookup c tpl. destruct (v_mockname c); reflexivity.
  - cfg_lookup c tpl. destruct (v_outpkg c); reflexivity.
  - cfg_lookup c tpl. destruct (v_include_regex c); reflexivity.
  - cfg_lookup c tpl. destruct (v_exclude_regex c); reflexivity.
  - cfg_lookup c tpl. destruct (v_exclude c) as [[|x l]|]; cbn; reflexivity.
  - cfg_lookup c tpl. destruct (v_recursive c); reflexivity.
  - cfg_lookup c tpl. destruct (v_log_level c); reflexivity.
  - cfg_lookup c tpl. destruct (v_config c); reflexivity.
  - cfg_lookup c tpl. destruct (v_anchors c) as [[|x l]|]; cbn; reflexivity.
  - td_lookup. destruct (v_boilerplate_file c); reflexivity.
  - td_lookup. destruct (v_mock_build_tags c); reflexivity.
  - td_lookup. destruct (v_unroll_variadic c); reflexivity.
  - td_lookup. destruct (v_with_expecter c); reflexivity.
Qed.

(* ------------------------------------------------------------------ where the levels sit *)
Lemma assoc_snoc_other {A} a (m : list (str * A)) kp x :
  seqb a kp = false -> assoc a (m ++ [(kp, x)]) = assoc a m.
Proof.
  intros H. induction m as [|[k' v'] t IH]; simpl; [rewrite H; reflexivity|].
  destruct (seqb a k'); [reflexivity | exact IH].
Qed.

Lemma packages_not_cfg_key c tpl : ~ In kpackages (map fst (mig_config c tpl)).
Proof.
  intros H. apply collapse_keys_incl in H. revert H. apply smem_false. vm_compute. reflexivity.
Qed.

Definition pkgs_node (r : v2root) : yv := YMap (map (fun e => (fst e, mig_pkg (snd e))) (r_pkgs r)).

Lemma root_packages r : ysub [SK kpackages] (mig_root r) = Some (pkgs_node r).
Proof.
  unfold mig_root. cbn [ysub ystep].
  rewrite assoc_app_r by apply packages_not_cfg_key.
  cbn [assoc]. rewrite seqb_refl. reflexivity.
Qed.

Lemma pkg_entries_nodup (a b : option yv) : NoDup (map fst [(kconfig, a); (kinterfaces, b)]).
Proof. apply nodupb_NoDup. vm_compute. reflexivity. Qed.
Lemma iface_entries_nodup (a b : option yv) : NoDup (map fst [(kconfig, a); (kconfigs, b)]).
Proof. apply nodupb_NoDup. vm_compute. reflexivity. Qed.

Definition ifaces_node (pc : v2pkg) : option yv :=
  match p_ifaces pc with
  | [] => None
  | l => Some (YMap (map (fun e => (fst e, mig_iface (snd e))) l))
  end.
Definition configs_node (ic : v2iface) : option yv :=
  match i_configs ic with [] => None | l => Some (YList (map mig_cfg_node l)) end.

Lemma pkg_config_get pc : ysub [SK kconfig] (mig_pkg pc) = option_map mig_cfg_node (p_config pc).
Proof.
  unfold mig_pkg. cbn [ysub ystep]. rewrite assoc_collapse by apply pkg_entries_nodup.
  cbn [assoc]. seqb_compute. destruct (p_config pc); reflexivity.
Qed.
Lemma pkg_ifaces_get pc : ysub [SK kinterfaces] (mig_pkg pc) = ifaces_node pc.
Proof.
  unfold mig_pkg. cbn [ysub ystep]. rewrite assoc_collapse by apply pkg_entries_nodup.
  cbn [assoc]. seqb_compute. fold (ifaces_node pc). destruct (ifaces_node pc); reflexivity.
Qed.
Lemma iface_config_get ic : ysub [SK kconfig] (mig_iface ic) = option_map mig_cfg_node (i_config ic).
Proof.
  unfold mig_iface. cbn [ysub ystep]. rewrite assoc_collapse by apply iface_entries_nodup.
  cbn [assoc]. seqb_compute. destruct (i_config ic); reflexivity.
Qed.
Lemma iface_configs_get ic : ysub [SK kconfigs] (mig_iface ic) = configs_node ic.
Proof.
  unfold mig_iface. cbn [ysub ystep]. rewrite assoc_collapse by apply iface_entries_nodup.
  cbn [assoc]. seqb_compute. fold (configs_node ic). destruct (configs_node ic); reflexivity.
Qed.

Lemma pkg_get r p : ysub [SK kpackages; SK p] (mig_root r) = option_map mig_pkg (assoc p (r_pkgs r)).
Proof.
  change [SK kpackages; SK p] with ([SK kpackages] ++ [SK p]).
  rewrite ysub_app, root_packages. unfold pkgs_node. cbn [bind ysub ystep].
  rewrite assoc_map. destruct (assoc p (r_pkgs r)); reflexivity.
Qed.

Lemma iface_get pc i :
  bind (ifaces_node pc) (ysub [SK i]) = option_map mig_iface (assoc i (p_ifaces pc)).
Proof.
  unfold ifaces_node. destruct (p_ifaces pc) as [|e l] eqn:E; [reflexivity|].
  cbn [bind ysub ystep]. rewrite assoc_map. destruct (assoc i (e :: l)); reflexivity.
Qed.

Lemma sub_get ic n :
  bind (configs_node ic) (ysub [SI n]) = option_map mig_cfg_node (nth_error (i_configs ic) n).
Proof.
  unfold configs_node. destruct (i_configs ic) as [|e l] eqn:E.
  - destruct n; reflexivity.
  - cbn [bind ysub ystep]. rewrite nth_error_map. destruct (nth_error (e :: l) n); reflexivity.
Qed.

Lemma bind_option_map {A C D} (o : option A) (f : A -> C) (g : C -> option D) :
  bind (option_map f o) g = bind o (fun x => g (f x)).
Proof. destruct o; reflexivity. Qed.
Lemma option_map_bind {A C D} (o : option A) (f : A -> option C) (g : C -> D) :
  option_map g (bind o f) = bind o (fun x => option_map g (f x)).
Proof. destruct o; reflexivity. Qed.
Lemma bind_ext {A C} (o : option A) (f g : A -> option C) :
  (forall x, f x = g x) -> bind o f = bind o g.
Proof. intros H. destruct o; simpl; auto. Qed.

(* the node of every level below the top is the migrated image of that level's v2 record *)
Lemma level_node r lv :
  lv <> LTop -> ysub (level_path lv) (mig_root r) = option_map mig_cfg_node (v2_at r lv).
Proof.
  intros Hlv. destruct lv as [|p|p i|p i n]; [congruence | | |].
  - change (level_path (LPkg p)) with ([SK kpackages; SK p] ++ [SK kconfig]).
    rewrite ysub_app, pkg_get, bind_option_map. cbn [v2_at]. rewrite option_map_bind.
    apply bind_ext. intros pc. apply pkg_config_get.
  - change (level_path (LIface p i)) with ([SK kpackages; SK p] ++ [SK kinterfaces] ++ [SK i] ++ [SK kconfig]).
    rewrite ysub_app, pkg_get, bind_option_map. cbn [v2_at]. rewrite option_map_bind.
    apply bind_ext. intros pc.
    rewrite ysub_app, pkg_ifaces_get.
    transitivity (bind (bind (ifaces_node pc) (ysub [SK i])) (ysub [SK kconfig])).
    { destruct (ifaces_node pc) as [v|]; [|reflexivity]. cbn [bind]. rewrite ysub_app. reflexivity. }
    rewrite iface_get, bind_option_map, option_map_bind.
    apply bind_ext. intros ic. apply iface_config_get.
  - change (level_path (LSub p i n)) with ([SK kpackages; SK p] ++ [SK kinterfaces] ++ [SK i] ++ [SK kconfigs] ++ [SI n]).
    rewrite ysub_app, pkg_get, bind_option_map. cbn [v2_at]. rewrite option_map_bind.
    apply bind_ext. intros pc.
    rewrite ysub_app, pkg_ifaces_get.
    transitivity (bind (bind (ifaces_node pc) (ysub [SK i])) (ysub ([SK kconfigs] ++ [SI n]))).
    { destruct (ifaces_node pc) as [v|]; [|reflexivity]. cbn [bind]. rewrite ysub_app. reflexivity. }
    rewrite iface_get, bind_option_map, option_map_bind.
    apply bind_ext. intros ic. rewrite ysub_app, iface_configs_get. apply sub_get.
Qed.

Lemma place_not_packages k : match place k with SK a :: _ => seqb a kpackages = false | _ => False end.
Proof. destruct k; vm_compute; reflexivity. Qed.

Lemma top_place r k :
  ysub (place k) (mig_root r) = ysub (place k) (YMap (mig_config (r_top r) (Some testify))).
Proof.
  pose proof (place_not_packages k) as H. unfold mig_root.
  destruct (place k) as [|[a|n] q]; [contradiction | | contradiction].
  cbn [ysub ystep]. rewrite assoc_snoc_other by exact H. reflexivity.
Qed.

Lemma migrate_ok r out : migrate r = MOk out -> out = mig_root r /\ wf_root r = true.
Proof. unfold migrate. destruct (wf_root r); [intros H; injection H as <-; auto | discriminate]. Qed.

Lemma key_preserved r out lv c k :
  migrate r = MOk out -> v2_at r lv = Some c ->
  ysub (level_path lv ++ place k) out = norm (v2_val c k).
Proof.
  intros Hm Hc. apply migrate_ok in Hm as [-> _]. rewrite ysub_app.
  destruct lv as [|p|p i|p i n].
  - cbn [level_path ysub bind]. rewrite top_place. cbn in Hc. injection Hc as <-.
    apply cfg_key_preserved.
  - rewrite level_node by discriminate. rewrite Hc. apply cfg_key_preserved.
  - rewrite level_node by discriminate. rewrite Hc. apply cfg_key_preserved.
  - rewrite level_node by discriminate. rewrite Hc. apply cfg_key_preserved.
Qed.

(* ------------------------------------------------------------------ names *)
Lemma names_preserved r out :
  migrate r = MOk out ->
  ykeys (ysub [SK kpackages] out) = map fst (r_pkgs r) /\
  NoDup (map fst (r_pkgs r)) /\
  forall p pc, assoc p (r_pkgs r) = Some pc ->
    ykeys (ysub [SK kpackages; SK p; SK kinterfaces] out) = map fst (p_ifaces pc) /\
    NoDup (map fst (p_ifaces pc)) /\
    forall i ic, assoc i (p_ifaces pc) = Some ic ->
      ylen (ysub [SK kpackages; SK p; SK kinterfaces; SK i; SK kconfigs] out) = length (i_configs ic).
Proof.
  intros Hm. apply migrate_ok in Hm as [-> Hwf].
  unfold wf_root in Hwf. apply andb_true_iff in Hwf as [Hnd Hall].
  split; [|split].
  - rewrite root_packages. unfold pkgs_node, ykeys. apply map_fst_map.
  - apply nodupb_NoDup; exact Hnd.
  - intros p pc Hp.
    assert (Hpn : ysub [SK kpackages; SK p; SK kinterfaces] (mig_root r) = ifaces_node pc).
    { change [SK kpackages; SK p; SK kinterfaces] with ([SK kpackages; SK p] ++ [SK kinterfaces]).
      rewrite ysub_app, pkg_get, Hp. cbn [option_map bind]. apply pkg_ifaces_get. }
    split; [|split].
    + rewrite Hpn. unfold ifaces_node, ykeys.
      destruct (p_ifaces pc) as [|e l]; [reflexivity | apply map_fst_map].
    + apply nodupb_NoDup. rewrite forallb_forall in Hall.
      apply (Hall (p, pc)). apply assoc_in; exact Hp.
    + intros i ic Hi.
      change [SK kpackages; SK p; SK kinterfaces; SK i; SK kconfigs]
        with ([SK kpackages; SK p; SK kinterfaces] ++ [SK i] ++ [SK kconfigs]).
      rewrite ysub_app, Hpn.
      transitivity (ylen (bind (bind (ifaces_node pc) (ysub [SK i])) (ysub [SK kconfigs]))).
      { destruct (ifaces_node pc) as [v|]; [|reflexivity]. cbn [bind]. rewrite ysub_app. reflexivity. }
      rewrite iface_get, Hi. cbn [option_map bind]. rewrite iface_configs_get.
      unfold configs_node, ylen. destruct (i_configs ic) as [|e l]; [reflexivity | apply map_length].
Qed.

(* ------------------------------------------------------------------ the loader accepts *)
Lemma forallb_collapse (f : str * yv -> bool) l :
  (forall k v, In (k, Some v) l -> f (k, v) = true) -> forallb f (collapse l) = true.
Proof.
  intros H. apply forallb_forall. intros [k v] Hin. apply H. apply in_collapse; exact Hin.
Qed.
Lemma existsb_false {A} (f : A -> bool) l : (forall x, In x l -> f x = false) -> existsb f l = false.
Proof.
  intros H. destruct (existsb f l) eqn:E; [|reflexivity].
  apply existsb_exists in E as [x [Hin Hx]]. rewrite (H x Hin) in Hx. discriminate.
Qed.
Lemma existsb_collapse_false (f : str * yv -> bool) l :
  (forall k v, In (k, Some v) l -> f (k, v) = false) -> existsb f (collapse l) = false.
Proof.
  intros H. apply existsb_false. intros [k v] Hin. apply H. apply in_collapse; exact Hin.
Qed.

Lemma forallb_map_true {A C} (g : A -> C) (f : C -> bool) l :
  (forall a, f (g a) = true) -> forallb f (map g l) = true.
Proof. intros H. induction l; simpl; [reflexivity | rewrite H, IHl; reflexivity]. Qed.
Lemma existsb_map_false {A C} (g : A -> C) (f : C -> bool) l :
  (forall a, f (g a) = false) -> existsb f (map g l) = false.
Proof. intros H. induction l; simpl; [reflexivity | rewrite H, IHl; reflexivity]. Qed.

Lemma forallb_is_str l : forallb (fun x => is_str x || is_null x) (map YStr l) = true.
Proof. induction l; simpl; auto. Qed.

Definition entry_ok (e : str * yv) : bool :=
  match assoc_ci (fst e) config_keys with Some t => has_ty t (snd e) | None => false end.

Ltac assoc_compute :=
  match goal with
  | |- context [assoc_ci ?k config_keys] =>
    let r := eval vm_compute in (assoc_ci k config_keys) in change (assoc_ci k config_keys) with r
  | |- context [assoc ?k config_keys] =>
    let r := eval vm_compute in (assoc k config_keys) in change (assoc k config_keys) with r
  end.

(* no configuration key is `packages`, in any letter case *)
Lemma cfg_key_not_packages c tpl k v : In (k, v) (mig_config c tpl) -> keq k kpackages = false.
Proof.
  intros Hin. apply in_collapse in Hin.
  assert (H : forallb (fun k => negb (keq k kpackages)) (map fst (cfg_entries c tpl)) = true)
    by (vm_compute; reflexivity).
  rewrite forallb_forall in H. apply negb_true_iff. apply H.
  apply in_map_iff. exists (k, Some v). split; [reflexivity | exact Hin].
Qed.

(* dropping unset entries keeps the keys distinct up to letter case *)
Lemma collapse_nodup_ci l : nodup_ci (map fst l) = true -> nodup_ci (map fst (collapse l)) = true.
Proof.
  unfold nodup_ci. induction l as [|[k [v|]] t IH]; simpl; intros H; [reflexivity | |];
    apply andb_true_iff in H as [Hk Ht].
  - apply andb_true_iff. split; [|apply IH; exact Ht].
    apply negb_true_iff. apply negb_true_iff in Hk. apply smem_false. apply smem_false in Hk.
    intros Hin. apply Hk. apply in_map_iff in Hin as [k' [E Hin]].
    apply in_map_iff. exists k'. split; [exact E | apply collapse_keys_incl; exact Hin].
  - apply IH; exact Ht.
Qed.

Lemma collapse_app a b : collapse (a ++ b) = collapse a ++ collapse b.
Proof. induction a as [|[k [v|]] t IH]; simpl; [reflexivity | rewrite IH; reflexivity | exact IH]. Qed.

Lemma cfg_entry_ok c tpl k v : In (k, Some v) (cfg_entries c tpl) -> entry_ok (k, v) = true.
Proof.
  unfold cfg_entries, entry_ok. cbn [In fst snd]. intros H.
  repeat (destruct H as [H|H]; [injection H as <- Hv | ]); try contradiction; try discriminate;
    assoc_compute.
  - destruct (v_all c); [injection Hv as <-; reflexivity | discriminate].
  - destruct (v_anchors c) as [[|e m]|]; try discriminate. injection Hv as <-; reflexivity.
  - destruct (v_config c); [injection Hv as <-; reflexivity | discriminate].
  - destruct (v_dir c); [injection Hv as <-; reflexivity | discriminate].
  - destruct (v_exclude c) as [[|e m]|]; try discriminate. injection Hv as <-.
    cbn [has_ty]. apply (forallb_is_str (e :: m)).
  - destruct (v_exclude_regex c); [injection Hv as <-; reflexivity | discriminate].
  - destruct (v_include_regex c); [injection Hv as <-; reflexivity | discriminate].
  - destruct (v_log_level c); [injection Hv as <-; reflexivity | discriminate].
  - destruct (v_mockname c); [injection Hv as <-; reflexivity | discriminate].
  - destruct (v_outpkg c); [injection Hv as <-; reflexivity | discriminate].
  - destruct (v_recursive c); [injection Hv as <-; reflexivity | discriminate].
  - destruct tpl; [injection Hv as <-; reflexivity | discriminate].
  - unfold template_data in Hv. destruct (collapse (td_entries c)); [discriminate|].
    injection Hv as <-; reflexivity.
Qed.

(* ... and with the exact spelling (top level) *)
Lemma cfg_entry_ok_exact c tpl k v :
  In (k, Some v) (cfg_entries c tpl) -> check_top_entry (k, v) = true.
Proof.
  unfold cfg_entries, check_top_entry. cbn [In fst snd]. intros H.
  repeat (destruct H as [H|H]; [injection H as <- Hv | ]); try contradiction; try discriminate;
    seqb_compute; try reflexivity; assoc_compute.
  - destruct (v_all c); [injection Hv as <-; reflexivity | discriminate].
  - destruct (v_anchors c) as [[|e m]|]; try discriminate. injection Hv as <-; reflexivity.
  - destruct (v_dir c); [injection Hv as <-; reflexivity | discriminate].
  - destruct (v_exclude c) as [[|e m]|]; try discriminate. injection Hv as <-.
    cbn [has_ty]. apply (forallb_is_str (e :: m)).
  - destruct (v_exclude_regex c); [injection Hv as <-; reflexivity | discriminate].
  - destruct (v_include_regex c); [injection Hv as <-; reflexivity | discriminate].
  - destruct (v_log_level c); [injection Hv as <-; reflexivity | discriminate].
  - destruct (v_mockname c); [injection Hv as <-; reflexivity | discriminate].
  - destruct (v_outpkg c); [injection Hv as <-; reflexivity | discriminate].
  - destruct (v_recursive c); [injection Hv as <-; reflexivity | discriminate].
  - destruct tpl; [injection Hv as <-; reflexivity | discriminate].
  - unfold template_data in Hv. destruct (collapse (td_entries c)); [discriminate|].
    injection Hv as <-; reflexivity.
Qed.

Lemma cfg_keys_nodup_ci c tpl : nodup_ci (map fst (cfg_entries c tpl)) = true.
Proof. vm_compute. reflexivity. Qed.

Lemma check_cfg_mig c tpl : check_cfg (mig_config c tpl) = true.
Proof.
  unfold check_cfg, mig_config. apply andb_true_iff. split.
  - apply collapse_nodup_ci, cfg_keys_nodup_ci.
  - apply forallb_collapse. intros k v H. apply (cfg_entry_ok c tpl k v H).
Qed.

Lemma check_iface_mig ic : check_iface (mig_iface ic) = true.
Proof.
  unfold mig_iface, check_iface. apply andb_true_iff. split.
  { apply collapse_nodup_ci. vm_compute. reflexivity. }
  apply forallb_collapse. cbn [In fst snd]. intros k v H.
  repeat (destruct H as [H|H]; [injection H as <- Hv | ]); try contradiction; keq_compute.
  - destruct (i_config ic); [injection Hv as <- | discriminate]. apply check_cfg_mig.
  - destruct (i_configs ic) as [|e l]; [discriminate|]. injection Hv as <-.
    apply (forallb_map_true mig_cfg_node check_cfg_node (e :: l)). intros c. apply check_cfg_mig.
Qed.

Lemma check_pkg_mig pc : check_pkg (mig_pkg pc) = true.
Proof.
  unfold mig_pkg, check_pkg. apply andb_true_iff. split.
  { apply collapse_nodup_ci. vm_compute. reflexivity. }
  apply forallb_collapse. cbn [In fst snd]. intros k v H.
  repeat (destruct H as [H|H]; [injection H as <- Hv | ]); try contradiction; keq_compute.
  - destruct (p_config pc); [injection Hv as <- | discriminate]. apply check_cfg_mig.
  - destruct (p_ifaces pc) as [|e l]; [discriminate|]. injection Hv as <-.
    cbn [map_of]. apply (forallb_map_true (fun x => (fst x, mig_iface (snd x))) _ (e :: l)).
    intros a. apply check_iface_mig.
Qed.

Lemma mig_root_entries r :
  mig_config (r_top r) (Some testify) ++ [(kpackages, pkgs_node r)]
  = collapse (cfg_entries (r_top r) (Some testify) ++ [(kpackages, Some (pkgs_node r))]).
Proof. rewrite collapse_app. reflexivity. Qed.

Lemma check_root_mig r : check_root (mig_root r) = true.
Proof.
  unfold mig_root, check_root. fold (pkgs_node r). apply andb_true_iff. split.
  - rewrite mig_root_entries. apply collapse_nodup_ci. vm_compute. reflexivity.
  - rewrite forallb_app. apply andb_true_iff. split.
    + apply forallb_forall. intros [k v] Hin.
      pose proof (cfg_key_not_packages _ _ _ _ Hin) as Hk.
      cbn [fst snd]. rewrite Hk.
      apply in_collapse in Hin. apply (cfg_entry_ok_exact _ _ _ _ Hin).
    + cbn [forallb fst snd]. change (keq kpackages kpackages) with true. rewrite andb_true_r.
      unfold pkgs_node. cbn [map_of].
      apply forallb_map_true. intros a. apply check_pkg_mig.
Qed.

Lemma iface_null_sub_mig ic : iface_null_sub (mig_iface ic) = false.
Proof.
  unfold mig_iface, iface_null_sub. apply existsb_collapse_false. cbn [In fst snd]. intros k v H.
  repeat (destruct H as [H|H]; [injection H as <- Hv | ]); try contradiction; keq_compute;
    [reflexivity|].
  destruct (i_configs ic) as [|e l]; [discriminate|]. injection Hv as <-. cbn [andb].
  apply (existsb_map_false mig_cfg_node is_null (e :: l)). intros c. reflexivity.
Qed.

Lemma pkg_null_sub_mig pc : pkg_null_sub (mig_pkg pc) = false.
Proof.
  unfold mig_pkg, pkg_null_sub, under. apply existsb_collapse_false. cbn [In fst snd]. intros k v H.
  repeat (destruct H as [H|H]; [injection H as <- Hv | ]); try contradiction; keq_compute;
    [reflexivity|].
  destruct (p_ifaces pc) as [|e l]; [discriminate|]. injection Hv as <-. cbn [andb].
  apply (existsb_map_false (fun x => (fst x, mig_iface (snd x))) _ (e :: l)). intros a. apply iface_null_sub_mig.
Qed.

Lemma root_null_sub_mig r : root_null_sub (mig_root r) = false.
Proof.
  unfold mig_root, root_null_sub, under. apply existsb_false. intros [k v] Hin.
  apply in_app_or in Hin as [Hin|Hin].
  - pose proof (cfg_key_not_packages _ _ _ _ Hin) as Hk.
    cbn [fst]. rewrite Hk. reflexivity.
  - destruct Hin as [Hin|[]]. injection Hin as <- <-. cbn [fst snd].
    change (keq kpackages kpackages) with true. cbn [andb].
    apply existsb_map_false. intros a. apply pkg_null_sub_mig.
Qed.

(* ---- the regular expressions the loader compiles are the v2 file's, value for value ---- *)
Lemma keq_lower a b : keq a b = true <-> lower a = lower b.
Proof. unfold keq. apply seqb_eq. Qed.

Lemma assoc_ci_in {A} k (l : list (str * A)) v :
  assoc_ci k l = Some v -> exists k', In (k', v) l /\ keq k k' = true.
Proof.
  induction l as [|[k' v'] t IH]; simpl; [discriminate|].
  destruct (keq k k') eqn:E.
  - intros H; injection H as <-. exists k'. auto.
  - intros H. destruct (IH H) as (k'' & Hin & Hk). exists k''. auto.
Qed.

Lemma assoc_ci_collapse k l :
  nodup_ci (map fst l) = true ->
  assoc_ci k (collapse l) = match assoc_ci k l with Some (Some v) => Some v | _ => None end.
Proof.
  unfold nodup_ci. induction l as [|[k' [v|]] t IH]; simpl; intros ND; [reflexivity | |];
    apply andb_true_iff in ND as [Hk ND'].
  - destruct (keq k k'); [reflexivity | apply IH; exact ND'].
  - destruct (keq k k') eqn:E; [|apply IH; exact ND'].
    destruct (assoc_ci k (collapse t)) eqn:F; [|reflexivity].
    exfalso. apply assoc_ci_in in F as (k'' & Hin & Hk'').
    apply negb_true_iff in Hk. apply smem_false in Hk. apply Hk.
    apply keq_lower in E. apply keq_lower in Hk''. rewrite <- E, Hk''.
    apply in_map. apply collapse_keys_incl.
    apply in_map_iff. exists (k'', y). split; [reflexivity | exact Hin].
Qed.

Lemma flat_map_re_elem l : flat_map re_elem (map YStr l) = l.
Proof. induction l as [|x t IH]; simpl; [reflexivity | rewrite IH; reflexivity]. Qed.

Ltac ci_lookup :=
  cbn [assoc_ci]; keq_compute; cbn [app].

Lemma cfg_regexes_mig c tpl : cfg_regexes (mig_config c tpl) = cfg_v2_regexes c.
Proof.
  unfold cfg_regexes, mig_config, cfg_v2_regexes.
  rewrite !assoc_ci_collapse by apply cfg_keys_nodup_ci.
  unfold cfg_entries. ci_lookup.
  destruct (v_exclude c) as [[|x l]|], (v_exclude_regex c), (v_include_regex c); cbn;
    rewrite ?flat_map_re_elem; reflexivity.
Qed.

Lemma node_regexes_mig c : node_regexes (mig_cfg_node c) = cfg_v2_regexes c.
Proof. apply cfg_regexes_mig. Qed.

Lemma flat_map_map {A C D} (g : A -> C) (f : C -> list D) l :
  flat_map f (map g l) = flat_map (fun a => f (g a)) l.
Proof. induction l as [|x t IH]; simpl; [reflexivity | rewrite IH; reflexivity]. Qed.
Lemma flat_map_ext' {A D} (f g : A -> list D) l : (forall a, f a = g a) -> flat_map f l = flat_map g l.
Proof. intros H. induction l as [|x t IH]; simpl; [reflexivity | rewrite H, IH; reflexivity]. Qed.

Lemma iface_regexes_mig ic : iface_regexes (mig_iface ic) = iface_v2_regexes ic.
Proof.
  unfold mig_iface, iface_regexes, iface_v2_regexes.
  rewrite !assoc_ci_collapse by (vm_compute; reflexivity). ci_lookup. f_equal.
  - destruct (i_config ic) as [c|]; [apply node_regexes_mig | reflexivity].
  - destruct (i_configs ic) as [|c l] eqn:E; [reflexivity|].
    rewrite flat_map_map. apply flat_map_ext'. intros a. apply node_regexes_mig.
Qed.

Lemma pkg_regexes_mig pc : pkg_regexes (mig_pkg pc) = pkg_v2_regexes pc.
Proof.
  unfold mig_pkg, pkg_regexes, pkg_v2_regexes.
  rewrite !assoc_ci_collapse by (vm_compute; reflexivity). ci_lookup. f_equal.
  - destruct (p_config pc) as [c|]; [apply node_regexes_mig | reflexivity].
  - destruct (p_ifaces pc) as [|e l] eqn:E; [reflexivity|].
    rewrite flat_map_map. apply flat_map_ext'. intros a. apply iface_regexes_mig.
Qed.

Lemma root_entries_nodup_ci r :
  nodup_ci (map fst (cfg_entries (r_top r) (Some testify) ++ [(kpackages, Some (pkgs_node r))])) = true.
Proof. vm_compute. reflexivity. Qed.

Lemma tree_regexes_mig r : tree_regexes (mig_root r) = v2_regexes r.
Proof.
  unfold mig_root, tree_regexes, v2_regexes. fold (pkgs_node r). rewrite mig_root_entries.
  unfold cfg_regexes, cfg_v2_regexes.
  rewrite !assoc_ci_collapse by apply root_entries_nodup_ci.
  unfold cfg_entries. cbn [app]. ci_lookup. unfold pkgs_node.
  rewrite flat_map_map.
  rewrite (flat_map_ext' (fun a => pkg_regexes (snd (fst a, mig_pkg (snd a)))) (fun e => pkg_v2_regexes (snd e)))
    by (intros a; apply pkg_regexes_mig).
  destruct (v_exclude (r_top r)) as [[|x l]|], (v_exclude_regex (r_top r)), (v_include_regex (r_top r)); cbn;
    rewrite ?flat_map_re_elem; reflexivity.
Qed.

(* the loader accepts the migrated file iff every regex value of the v2 file compiles *)
Lemma loader_verdict re_ok r out :
  migrate r = MOk out ->
  load re_ok out = if forallb re_ok (v2_regexes r) then LoadOk else LoadErr.
Proof.
  intros Hm. apply migrate_ok in Hm as [-> _].
  unfold load, load_with. unfold mig_root at 1. cbn [andb].
  rewrite check_root_mig, tree_regexes_mig. cbn [negb].
  destruct (forallb re_ok (v2_regexes r)); reflexivity.
Qed.

Lemma loader_accepts re_ok r out :
  migrate r = MOk out -> forallb re_ok (v2_regexes r) = true -> load re_ok out = LoadOk.
Proof. intros Hm H. rewrite (loader_verdict re_ok r out Hm), H. reflexivity. Qed.

Lemma invalid_regex_rejected re_ok r out :
  migrate r = MOk out -> forallb re_ok (v2_regexes r) = false -> load re_ok out = LoadErr.
Proof. intros Hm H. rewrite (loader_verdict re_ok r out Hm), H. reflexivity. Qed.

(* ------------------------------------------------------------------ leaves *)
Fixpoint flat_entries (m : list (str * yv)) : list (path * yv) :=
  match m with
  | [] => []
  | (k, x) :: t => map (pre (SK k)) (flatten x) ++ flat_entries t
  end.
Fixpoint flat_items (n : nat) (l : list yv) : list (path * yv) :=
  match l with
  | [] => []
  | x :: t => map (pre (SI n)) (flatten x) ++ flat_items (S n) t
  end.

Lemma flatten_map m :
  flatten (YMap m) = match m with [] => [([], YMap [])] | _ => flat_entries m end.
Proof.
  destruct m as [|e m]; [reflexivity|].
  change (flatten (YMap (e :: m))) with
    ((fix go (m : list (str * yv)) : list (path * yv) :=
        match m with
        | [] => []
        | (k, x) :: t => map (pre (SK k)) (flatten x) ++ go t
        end) (e :: m)).
  generalize (e :: m) as l. intros l.
  set (go := fix go (m : list (str * yv)) : list (path * yv) :=
        match m with
        | [] => []
        | (k, x) :: t => map (pre (SK k)) (flatten x) ++ go t
        end).
  induction l as [|[k x] t IH]; [reflexivity|].
  change (go ((k, x) :: t)) with (map (pre (SK k)) (flatten x) ++ go t).
  rewrite IH. reflexivity.
Qed.

Lemma flatten_list l :
  flatten (YList l) = match l with [] => [([], YList [])] | _ => flat_items 0 l end.
Proof.
  destruct l as [|e l]; [reflexivity|].
  change (flatten (YList (e :: l))) with
    ((fix go (n : nat) (l : list yv) : list (path * yv) :=
        match l with
        | [] => []
        | x :: t => map (pre (SI n)) (flatten x) ++ go (S n) t
        end) 0 (e :: l)).
  generalize (e :: l) as l'. generalize 0 as n. intros n l'. revert n.
  set (go := fix go (n : nat) (l : list yv) : list (path * yv) :=
        match l with
        | [] => []
        | x :: t => map (pre (SI n)) (flatten x) ++ go (S n) t
        end).
  induction l' as [|x t IH]; intros n; [reflexivity|].
  change (go n (x :: t)) with (map (pre (SI n)) (flatten x) ++ go (S n) t).
  rewrite IH. reflexivity.
Qed.

Lemma in_pre s p v l : In (p, v) (map (pre s) l) -> exists p', p = s :: p' /\ In (p', v) l.
Proof.
  intros H. apply in_map_iff in H as [[p' v'] [E Hin]]. unfold pre in E; simpl in E.
  injection E as <- <-. eauto.
Qed.

Lemma in_flat_entries p v m :
  In (p, v) (flat_entries m) ->
  exists k x p', In (k, x) m /\ p = SK k :: p' /\ In (p', v) (flatten x).
Proof.
  induction m as [|[k x] t IH]; simpl; [tauto|]. intros H. apply in_app_or in H as [H|H].
  - apply in_pre in H as [p' [-> Hin]]. exists k, x, p'. auto.
  - destruct (IH H) as (k' & x' & p' & Hin & -> & Hf). exists k', x', p'. auto.
Qed.

Lemma in_flat_items p v n l :
  In (p, v) (flat_items n l) ->
  exists i x p', nth_error l i = Some x /\ p = SI (n + i) :: p' /\ In (p', v) (flatten x).
Proof.
  revert n; induction l as [|x t IH]; intros n; simpl; [tauto|]. intros H.
  apply in_app_or in H as [H|H].
  - apply in_pre in H as [p' [-> Hin]]. exists 0, x, p'. rewrite Nat.add_0_r. auto.
  - destruct (IH _ H) as (i & x' & p' & Hn & -> & Hf). exists (S i), x', p'.
    rewrite Nat.add_succ_r. auto.
Qed.

Lemma in_flatten_map p v m :
  In (p, v) (flatten (YMap m)) -> is_scalar v = true ->
  exists k x p', In (k, x) m /\ p = SK k :: p' /\ In (p', v) (flatten x).
Proof.
  rewrite flatten_map. destruct m as [|e m].
  - intros [H|[]] Hs. injection H as <- <-. discriminate.
  - intros H _. apply in_flat_entries; exact H.
Qed.

Lemma in_flatten_list p v l :
  In (p, v) (flatten (YList l)) -> is_scalar v = true ->
  exists i x p', nth_error l i = Some x /\ p = SI i :: p' /\ In (p', v) (flatten x).
Proof.
  rewrite flatten_list. destruct l as [|e l].
  - intros [H|[]] Hs. injection H as <- <-. discriminate.
  - intros H _. apply in_flat_items in H. exact H.
Qed.

(* [rel] (relative to the level's node) and [v] are the image of a v2 value of that level *)
Definition img (c : v2config) (rel : path) (v : yv) : Prop :=
  exists k val sub, v2_val c k = Some val /\ rel = place k ++ sub /\ In (sub, v) (flatten val).

Ltac scalar_img K E :=
  right; exists K; eexists; exists [];
  split; [cbn [v2_val]; rewrite E; reflexivity |
  split; [reflexivity | left; reflexivity]].

Lemma cfg_entry_leaf c tpl k x p' v :
  In (k, x) (mig_config c tpl) -> In (p', v) (flatten x) -> is_scalar v = true ->
  (exists s, tpl = Some s /\ k = B "template" /\ p' = [] /\ v = YStr s) \/ img c (SK k :: p') v.
Proof.
  intros Hin Hf Hs. apply in_collapse in Hin. unfold cfg_entries in Hin. cbn [In] in Hin.
  repeat (destruct Hin as [Hin|Hin]; [injection Hin as <- Hv | ]); try contradiction; try discriminate.
  - destruct (v_all c) eqn:E; [injection Hv as <- | discriminate].
    destruct Hf as [Hf|[]]. injection Hf as <- <-. scalar_img KAll E.
  - destruct (v_anchors c) as [[|e m]|] eqn:E; try discriminate. injection Hv as <-.
    right. exists KAnchors, (YMap (e :: m)), p'. split; [cbn [v2_val]; rewrite E; reflexivity|].
    split; [reflexivity | exact Hf].
  - destruct (v_config c) eqn:E; [injection Hv as <- | discriminate].
    destruct Hf as [Hf|[]]. injection Hf as <- <-. scalar_img KConfig E.
  - destruct (v_dir c) eqn:E; [injection Hv as <- | discriminate].
    destruct Hf as [Hf|[]]. injection Hf as <- <-. scalar_img KDir E.
  - destruct (v_exclude c) as [[|e m]|] eqn:E; try discriminate. injection Hv as <-.
    right. exists KExclude, (YList (map YStr (e :: m))), p'. split; [cbn [v2_val]; rewrite E; reflexivity|].
    split; [reflexivity | exact Hf].
  - destruct (v_exclude_regex c) eqn:E; [injection Hv as <- | discriminate].
    destruct Hf as [Hf|[]]. injection Hf as <- <-. scalar_img KExcludeRegex E.
  - destruct (v_include_regex c) eqn:E; [injection Hv as <- | discriminate].
    destruct Hf as [Hf|[]]. injection Hf as <- <-. scalar_img KIncludeRegex E.
  - destruct (v_log_level c) eqn:E; [injection Hv as <- | discriminate].
    destruct Hf as [Hf|[]]. injection Hf as <- <-. scalar_img KLogLevel E.
  - destruct (v_mockname c) eqn:E; [injection Hv as <- | discriminate].
    destruct Hf as [Hf|[]]. injection Hf as <- <-. scalar_img KMockname E.
  - destruct (v_outpkg c) eqn:E; [injection Hv as <- | discriminate].
    destruct Hf as [Hf|[]]. injection Hf as <- <-. scalar_img KOutpkg E.
  - destruct (v_recursive c) eqn:E; [injection Hv as <- | discriminate].
    destruct Hf as [Hf|[]]. injection Hf as <- <-. scalar_img KRecursive E.
  - destruct tpl as [s|]; [injection Hv as <- | discriminate].
    destruct Hf as [Hf|[]]. injection Hf as <- <-. left. exists s. auto.
  - unfold template_data in Hv. destruct (collapse (td_entries c)) as [|e m] eqn:E; [discriminate|].
    injection Hv as <-. apply in_flatten_map in Hf as (k2 & x2 & p2 & Hin2 & -> & Hf2); [|exact Hs].
    rewrite <- E in Hin2. apply in_collapse in Hin2. unfold td_entries in Hin2. cbn [In] in Hin2.
    repeat (destruct Hin2 as [Hin2|Hin2]; [injection Hin2 as <- Hv2 | ]); try contradiction.
    + destruct (v_boilerplate_file c) eqn:F; [injection Hv2 as <- | discriminate].
      destruct Hf2 as [Hf2|[]]. injection Hf2 as <- <-.
      scalar_img KBoilerplateFile F.
    + destruct (v_mock_build_tags c) eqn:F; [injection Hv2 as <- | discriminate].
      destruct Hf2 as [Hf2|[]]. injection Hf2 as <- <-.
      scalar_img KMockBuildTags F.
    + destruct (v_unroll_variadic c) eqn:F; [injection Hv2 as <- | discriminate].
      destruct Hf2 as [Hf2|[]]. injection Hf2 as <- <-.
      scalar_img KUnrollVariadic F.
    + destruct (v_with_expecter c) eqn:F; [injection Hv2 as <- | discriminate].
      destruct Hf2 as [Hf2|[]]. injection Hf2 as <- <-.
      scalar_img KWithExpecter F.
Qed.

Lemma cfg_node_leaf c p v :
  In (p, v) (flatten (mig_cfg_node c)) -> is_scalar v = true -> img c p v.
Proof.
  intros H Hs. unfold mig_cfg_node in H.
  apply in_flatten_map in H as (k & x & p' & Hin & -> & Hf); [|exact Hs].
  destruct (cfg_entry_leaf _ _ _ _ _ _ Hin Hf Hs) as [(s & E & _)|H]; [discriminate | exact H].
Qed.

Lemma in_map_entries {A} (f : A -> yv) k x (l : list (str * A)) :
  In (k, x) (map (fun e => (fst e, f (snd e))) l) -> exists a, In (k, a) l /\ x = f a.
Proof.
  intros H. apply in_map_iff in H as [[k' a] [E Hin]]. simpl in E. injection E as <- <-. eauto.
Qed.

Lemma nothing_invented r out p v :
  migrate r = MOk out -> In (p, v) (flatten out) -> is_scalar v = true ->
  (p = [SK (B "template")] /\ v = YStr testify) \/
  exists lv c rel, v2_at r lv = Some c /\ p = level_path lv ++ rel /\ img c rel v.
Proof.
  intros Hm Hin Hs. apply migrate_ok in Hm as [-> Hwf].
  unfold wf_root in Hwf. apply andb_true_iff in Hwf as [Hnd Hall].
  apply nodupb_NoDup in Hnd. rewrite forallb_forall in Hall.
  unfold mig_root in Hin.
  apply in_flatten_map in Hin as (k & x & p' & Hk & -> & Hf); [|exact Hs].
  apply in_app_or in Hk as [Hk|Hk].
  - (* top-level configuration *)
    destruct (cfg_entry_leaf _ _ _ _ _ _ Hk Hf Hs) as [(s & E & -> & -> & ->)|H].
    + injection E as <-. left. auto.
    + right. exists LTop, (r_top r), (SK k :: p'). auto.
  - destruct Hk as [Hk|[]]. injection Hk as <- <-.
    apply in_flatten_map in Hf as (pn & px & p1 & Hp & -> & Hf); [|exact Hs].
    apply in_map_entries in Hp as (pc & Hp & ->).
    assert (Hpa : assoc pn (r_pkgs r) = Some pc) by (apply in_assoc; assumption).
    assert (Hndi : NoDup (map fst (p_ifaces pc))) by (apply nodupb_NoDup; apply (Hall (pn, pc) Hp)).
    unfold mig_pkg in Hf.
    apply in_flatten_map in Hf as (k2 & x2 & p2 & Hk2 & -> & Hf); [|exact Hs].
    apply in_collapse in Hk2. cbn [In] in Hk2.
    repeat (destruct Hk2 as [Hk2|Hk2]; [injection Hk2 as <- Hv | ]); try contradiction.
    + (* package config *)
      destruct (p_config pc) as [c|] eqn:Ec; [injection Hv as <- | discriminate].
      right. exists (LPkg pn), c, p2. split; [|split].
      * cbn [v2_at]. rewrite Hpa. exact Ec.
      * reflexivity.
      * apply cfg_node_leaf; assumption.
    + assert (Hx : x2 = YMap (map (fun e => (fst e, mig_iface (snd e))) (p_ifaces pc)))
        by (destruct (p_ifaces pc); [discriminate | injection Hv as <-; reflexivity]).
      subst x2. clear Hv.
      apply in_flatten_map in Hf as (iname & ix & p3 & Hi & -> & Hf); [|exact Hs].
      apply in_map_entries in Hi as (ic & Hi & ->).
      assert (Hia : assoc iname (p_ifaces pc) = Some ic) by (apply in_assoc; assumption).
      unfold mig_iface in Hf.
      apply in_flatten_map in Hf as (k3 & x3 & p4 & Hk3 & -> & Hf); [|exact Hs].
      apply in_collapse in Hk3. cbn [In] in Hk3.
      repeat (destruct Hk3 as [Hk3|Hk3]; [injection Hk3 as <- Hv | ]); try contradiction.
      * (* interface config *)
        destruct (i_config ic) as [c|] eqn:Ec; [injection Hv as <- | discriminate].
        right. exists (LIface pn iname), c, p4. split; [|split].
        -- cbn [v2_at bind]. rewrite Hpa. cbn [bind]. rewrite Hia. exact Ec.
        -- reflexivity.
        -- apply cfg_node_leaf; assumption.
      * (* configs entries *)
        assert (Hx : x3 = YList (map mig_cfg_node (i_configs ic)))
          by (destruct (i_configs ic); [discriminate | injection Hv as <-; reflexivity]).
        subst x3. clear Hv.
        apply in_flatten_list in Hf as (n & xn & p5 & Hn & -> & Hf); [|exact Hs].
        rewrite nth_error_map in Hn.
        destruct (nth_error (i_configs ic) n) as [c|] eqn:En; [|discriminate].
        injection Hn as <-.
        right. exists (LSub pn iname n), c, p5. split; [|split].
        -- cbn [v2_at bind]. rewrite Hpa. cbn [bind]. rewrite Hia. exact En.
        -- reflexivity.
        -- apply cfg_node_leaf; assumption.
Qed.

(* ------------------------------------------------------------------ every decodable tree is migrated *)
Lemma migrate_total r : wf_root r = true -> migrate r = MOk (mig_root r).
Proof. unfold migrate. intros ->. reflexivity. Qed.

(* ------------------------------------------------------------------ frame *)
Section CmdFacts.
  Variable parse : str -> option v2root.
  Variable encode : yv -> str.
  Variable writable : str -> bool.

  Lemma run_frame f inp outp q :
    q <> outp -> fst (run_cmd parse encode writable f inp outp) q = f q.
  Proof.
    intros Hq. unfold run_cmd.
    destruct (f inp) as [b|]; [|reflexivity].
    destruct (parse b) as [r|]; [|reflexivity].
    destruct (migrate r); [|reflexivity].
    destruct (writable outp); [|reflexivity].
    cbn [fst]. unfold upd. apply seqb_neq in Hq. rewrite Hq. reflexivity.
  Qed.

  Lemma run_failure_frame f inp outp :
    snd (run_cmd parse encode writable f inp outp) = ExitErr ->
    fst (run_cmd parse encode writable f inp outp) = f.
  Proof.
    unfold run_cmd.
    destruct (f inp) as [b|]; [|reflexivity].
    destruct (parse b) as [r|]; [|reflexivity].
    destruct (migrate r); [|reflexivity].
    destruct (writable outp); [discriminate | reflexivity].
  Qed.

  Lemma run_success f inp outp :
    snd (run_cmd parse encode writable f inp outp) = ExitOk ->
    exists b r t, f inp = Some b /\ parse b = Some r /\ migrate r = MOk t /\
                  fst (run_cmd parse encode writable f inp outp) outp = Some (encode t).
  Proof.
    unfold run_cmd.
    destruct (f inp) as [b|] eqn:Eb; [|discriminate].
    destruct (parse b) as [r|] eqn:Er; [|discriminate].
    destruct (migrate r) as [t|] eqn:Et; [|discriminate].
    destruct (writable outp); [|discriminate].
    intros _. exists b, r, t. cbn [fst]. unfold upd. rewrite seqb_refl.
    split; [reflexivity | split; [exact Er | split; [exact Et | reflexivity]]].
  Qed.
  (* the result depends only on the input file: two file systems that agree on the input give the
     same exit class and, on success, the same content at the output path - whatever the output
     path held before (nothing, an earlier migration, anything else) *)
  Lemma run_depends_on_input f f' inp outp :
    f inp = f' inp ->
    snd (run_cmd parse encode writable f inp outp) = snd (run_cmd parse encode writable f' inp outp) /\
    (snd (run_cmd parse encode writable f inp outp) = ExitOk ->
     fst (run_cmd parse encode writable f inp outp) outp = fst (run_cmd parse encode writable f' inp outp) outp).
  Proof.
    intros E. unfold run_cmd. rewrite <- E.
    destruct (f inp) as [b|]; [|split; [reflexivity | discriminate]].
    destruct (parse b) as [r|]; [|split; [reflexivity | discriminate]].
    destruct (migrate r); [|split; [reflexivity | discriminate]].
    destruct (writable outp); [|split; [reflexivity | discriminate]].
    split; [reflexivity|]. intros _. cbn [fst]. unfold upd. rewrite seqb_refl. reflexivity.
  Qed.

  (* two-step history: migrating A to [outp] and then B to the same [outp] leaves there what
     migrating B alone leaves there (B's file is not the output path) *)
  Lemma run_two_step f inpA inpB outp :
    inpB <> outp ->
    let f1 := fst (run_cmd parse encode writable f inpA outp) in
    snd (run_cmd parse encode writable f1 inpB outp) = snd (run_cmd parse encode writable f inpB outp) /\
    (snd (run_cmd parse encode writable f1 inpB outp) = ExitOk ->
     fst (run_cmd parse encode writable f1 inpB outp) outp = fst (run_cmd parse encode writable f inpB outp) outp).
  Proof.
    intros Hne f1. apply run_depends_on_input. unfold f1. apply run_frame. exact Hne.
  Qed.
End CmdFacts.

(* ------------------------------------------------------------------ unmapped keys have no influence *)
Lemma obool_inj a b : obool a = obool b -> a = b.
Proof. destruct a, b; simpl; congruence. Qed.
Lemma ostr_inj a b : ostr a = ostr b -> a = b.
Proof. destruct a, b; simpl; congruence. Qed.
Lemma map_YStr_inj a b : map YStr a = map YStr b -> a = b.
Proof.
  revert b; induction a as [|x a IH]; destruct b as [|y b]; simpl; try congruence.
  intros H. injection H as -> H. f_equal. apply IH; exact H.
Qed.

Lemma only_mapped_keys_matter c c' tpl :
  (forall k, v2_val c k = v2_val c' k) -> mig_config c tpl = mig_config c' tpl.
Proof.
  intros H.
  pose proof (obool_inj _ _ (H KAll)) as E1.
  pose proof (ostr_inj _ _ (H KDir)) as E2.
  pose proof (ostr_inj _ _ (H KMockname)) as E3.
  pose proof (ostr_inj _ _ (H KOutpkg)) as E4.
  pose proof (ostr_inj _ _ (H KIncludeRegex)) as E5.
  pose proof (ostr_inj _ _ (H KExcludeRegex)) as E6.
  pose proof (H KExclude) as E7. cbn [v2_val] in E7.
  pose proof (obool_inj _ _ (H KRecursive)) as E8.
  pose proof (ostr_inj _ _ (H KLogLevel)) as E9.
  pose proof (ostr_inj _ _ (H KConfig)) as E10.
  pose proof (H KAnchors) as E11. cbn [v2_val] in E11.
  pose proof (ostr_inj _ _ (H KBoilerplateFile)) as E12.
  pose proof (ostr_inj _ _ (H KMockBuildTags)) as E13.
  pose proof (obool_inj _ _ (H KUnrollVariadic)) as E14.
  pose proof (obool_inj _ _ (H KWithExpecter)) as E15.
  assert (E7' : v_exclude c = v_exclude c').
  { destruct (v_exclude c), (v_exclude c'); simpl in E7; try congruence.
    injection E7 as E7. f_equal. apply map_YStr_inj; exact E7. }
  assert (E11' : v_anchors c = v_anchors c').
  { destruct (v_anchors c), (v_anchors c'); simpl in E11; congruence. }
  unfold mig_config, cfg_entries, template_data, td_entries.
  rewrite E1, E2, E3, E4, E5, E6, E7', E8, E9, E10, E11', E12, E13, E14, E15. reflexivity.
Qed.

(* ------------------------------------------------------------------ reading the written file back *)
Section YvInd.
  Variable P : yv -> Prop.
  Hypothesis Hnull : P YNull.
  Hypothesis Hbool : forall b, P (YBool b).
  Hypothesis Hint : forall z, P (YInt z).
  Hypothesis Hstr : forall s, P (YStr s).
  Hypothesis Hlist : forall l, Forall P l -> P (YList l).
  Hypothesis Hmap : forall m, Forall (fun e => P (snd e)) m -> P (YMap m).

  Fixpoint yv_ind' (v : yv) : P v :=
    match v with
    | YNull => Hnull
    | YBool b => Hbool b
    | YInt z => Hint z
    | YStr s => Hstr s
    | YList l =>
      Hlist l ((fix go (l : list yv) : Forall P l :=
                  match l with
                  | [] => @Forall_nil _ P
                  | x :: t => @Forall_cons _ P x t (yv_ind' x) (go t)
                  end) l)
    | YMap m =>
      Hmap m ((fix go (m : list (str * yv)) : Forall (fun e => P (snd e)) m :=
                 match m with
                 | [] => @Forall_nil _ (fun e => P (snd e))
                 | e :: t => @Forall_cons _ (fun e => P (snd e)) e t (yv_ind' (snd e)) (go t)
                 end) m)
    end.
End YvInd.

Lemma existsb_false_inv {A} (f : A -> bool) l : existsb f l = false -> forall x, In x l -> f x = false.
Proof.
  intros H x Hin. destruct (f x) eqn:E; [|reflexivity].
  assert (existsb f l = true) by (apply existsb_exists; eauto). congruence.
Qed.

Lemma seqb_sym a b : seqb a b = seqb b a.
Proof.
  destruct (seqb a b) eqn:E.
  - apply seqb_eq in E; subst. symmetry; apply seqb_refl.
  - apply seqb_neq in E. symmetry. apply seqb_neq. congruence.
Qed.

Lemma assoc_absent {A} k (m : list (str * A)) :
  (forall e, In e m -> seqb (fst e) k = false) -> assoc k m = None.
Proof.
  induction m as [|[k' v] t IH]; simpl; intros H; [reflexivity|].
  pose proof (H (k', v) (or_introl eq_refl)) as Hk. cbn [fst] in Hk.
  rewrite seqb_sym, Hk. apply IH. intros e He. apply H. now right.
Qed.

Lemma reread_id v : has_merge_key v = false -> reread v = Some v.
Proof.
  induction v as [| | | |l IH|m IH] using yv_ind'; try reflexivity.
  - intros H. cbn [has_merge_key] in H. pose proof (existsb_false_inv _ _ H) as Hx. clear H.
    cbn [reread].
    assert (E : all_some (map reread l) = Some l).
    { induction l as [|x t IHt]; [reflexivity|].
      inversion IH as [|? ? Hh Ht]; subst. cbn [map all_some].
      rewrite Hh by (apply Hx; now left). rewrite IHt; [reflexivity | exact Ht |].
      intros y Hy. apply Hx. now right. }
    rewrite E. reflexivity.
  - intros H. cbn [has_merge_key] in H. pose proof (existsb_false_inv _ _ H) as Hx. clear H.
    cbn [reread].
    assert (E : all_some (map (fun e => entry_opt (fst e, reread (snd e))) m) = Some m).
    { induction m as [|[k x] t IHt]; [reflexivity|].
      inversion IH as [|? ? Hh Ht]; subst. cbn [map all_some fst snd].
      pose proof (Hx (k, x) (or_introl eq_refl)) as Hkx. cbn [fst snd] in Hkx.
      apply orb_false_iff in Hkx as [_ Hkx]. cbn [snd] in Hh. rewrite (Hh Hkx).
      unfold entry_opt at 1. cbn [fst snd option_map].
      rewrite IHt; [reflexivity | exact Ht |]. intros y Hy. apply Hx. now right. }
    rewrite E.
    rewrite assoc_absent; [reflexivity|].
    intros e He. apply Hx in He. apply orb_false_iff in He as [He _]. exact He.
Qed.

Lemma existsb_YStr l : existsb has_merge_key (map YStr l) = false.
Proof. induction l; simpl; auto. Qed.

Lemma cfg_no_merge c tpl :
  cfg_merge_free c = true -> has_merge_key (YMap (mig_config c tpl)) = false.
Proof.
  intros Hg. cbn [has_merge_key]. unfold mig_config. apply existsb_collapse_false.
  unfold cfg_entries. cbn [In fst snd]. intros k v H.
  repeat (destruct H as [H|H]; [injection H as <- Hv | ]); try contradiction; try discriminate;
    match goal with |- is_merge ?k || _ = false =>
      let r := eval vm_compute in (is_merge k) in change (is_merge k) with r end; cbn [orb].
  - destruct (v_all c); [injection Hv as <-; reflexivity | discriminate].
  - unfold cfg_merge_free in Hg. destruct (v_anchors c) as [[|e m]|]; try discriminate.
    injection Hv as <-. apply negb_true_iff in Hg. exact Hg.
  - destruct (v_config c); [injection Hv as <-; reflexivity | discriminate].
  - destruct (v_dir c); [injection Hv as <-; reflexivity | discriminate].
  - destruct (v_exclude c) as [[|e m]|]; try discriminate. injection Hv as <-.
    cbn [has_merge_key]. apply (existsb_YStr (e :: m)).
  - destruct (v_exclude_regex c); [injection Hv as <-; reflexivity | discriminate].
  - destruct (v_include_regex c); [injection Hv as <-; reflexivity | discriminate].
  - destruct (v_log_level c); [injection Hv as <-; reflexivity | discriminate].
  - destruct (v_mockname c); [injection Hv as <-; reflexivity | discriminate].
  - destruct (v_outpkg c); [injection Hv as <-; reflexivity | discriminate].
  - destruct (v_recursive c); [injection Hv as <-; reflexivity | discriminate].
  - destruct tpl; [injection Hv as <-; reflexivity | discriminate].
  - unfold template_data in Hv. destruct (collapse (td_entries c)) as [|e m] eqn:E; [discriminate|].
    injection Hv as <-. rewrite <- E. cbn [has_merge_key]. apply existsb_collapse_false.
    unfold td_entries. cbn [In fst snd]. intros k2 v2 H2.
    repeat (destruct H2 as [H2|H2]; [injection H2 as <- Hv2 | ]); try contradiction;
      match goal with |- is_merge ?k || _ = false =>
        let r := eval vm_compute in (is_merge k) in change (is_merge k) with r end; cbn [orb].
    + destruct (v_boilerplate_file c); [injection Hv2 as <-; reflexivity | discriminate].
    + destruct (v_mock_build_tags c); [injection Hv2 as <-; reflexivity | discriminate].
    + destruct (v_unroll_variadic c); [injection Hv2 as <-; reflexivity | discriminate].
    + destruct (v_with_expecter c); [injection Hv2 as <-; reflexivity | discriminate].
Qed.

Lemma existsb_map_entries_false {A} (g : A -> yv) (l : list (str * A)) :
  (forall e, In e l -> is_merge (fst e) = false /\ has_merge_key (g (snd e)) = false) ->
  existsb (fun e => is_merge (fst e) || has_merge_key (snd e)) (map (fun e => (fst e, g (snd e))) l) = false.
Proof.
  intros H. apply existsb_false. intros x Hx. apply in_map_iff in Hx as [e [<- He]].
  destruct (H e He) as [H1 H2]. cbn [fst snd]. rewrite H1, H2. reflexivity.
Qed.

Lemma iface_no_merge ic : iface_merge_free ic = true -> has_merge_key (mig_iface ic) = false.
Proof.
  unfold iface_merge_free. intros Hg. apply andb_true_iff in Hg as [Hc Hs].
  unfold mig_iface. cbn [has_merge_key]. apply existsb_collapse_false. cbn [In fst snd]. intros k v H.
  repeat (destruct H as [H|H]; [injection H as <- Hv | ]); try contradiction;
    match goal with |- is_merge ?k || _ = false =>
      let r := eval vm_compute in (is_merge k) in change (is_merge k) with r end; cbn [orb].
  - destruct (i_config ic) as [c|]; [injection Hv as <- | discriminate]. apply cfg_no_merge. exact Hc.
  - assert (Hx : v = YList (map mig_cfg_node (i_configs ic)))
      by (destruct (i_configs ic); [discriminate | injection Hv as <-; reflexivity]).
    subst v. cbn [has_merge_key]. apply existsb_false. intros x Hx.
    apply in_map_iff in Hx as [c [<- Hc']]. apply cfg_no_merge.
    rewrite forallb_forall in Hs. apply Hs; exact Hc'.
Qed.

Lemma pkg_no_merge pc : pkg_merge_free pc = true -> has_merge_key (mig_pkg pc) = false.
Proof.
  unfold pkg_merge_free. intros Hg. apply andb_true_iff in Hg as [Hc Hs].
  unfold mig_pkg. cbn [has_merge_key]. apply existsb_collapse_false. cbn [In fst snd]. intros k v H.
  repeat (destruct H as [H|H]; [injection H as <- Hv | ]); try contradiction;
    match goal with |- is_merge ?k || _ = false =>
      let r := eval vm_compute in (is_merge k) in change (is_merge k) with r end; cbn [orb].
  - destruct (p_config pc) as [c|]; [injection Hv as <- | discriminate]. apply cfg_no_merge. exact Hc.
  - assert (Hx : v = YMap (map (fun e => (fst e, mig_iface (snd e))) (p_ifaces pc)))
      by (destruct (p_ifaces pc); [discriminate | injection Hv as <-; reflexivity]).
    subst v. cbn [has_merge_key]. apply existsb_map_entries_false. intros e He.
    rewrite forallb_forall in Hs. specialize (Hs e He). apply andb_true_iff in Hs as [H1 H2].
    split; [apply negb_true_iff; exact H1 | apply iface_no_merge; exact H2].
Qed.

Lemma root_no_merge r : v2_merge_free r = true -> has_merge_key (mig_root r) = false.
Proof.
  unfold v2_merge_free. intros Hg. apply andb_true_iff in Hg as [Hc Hs].
  unfold mig_root. cbn [has_merge_key]. rewrite existsb_app. apply orb_false_iff. split.
  - apply (cfg_no_merge _ (Some testify)) in Hc. exact Hc.
  - cbn [existsb fst snd]. rewrite orb_false_r.
    change (is_merge kpackages) with false. cbn [orb has_merge_key].
    apply existsb_map_entries_false. intros e He.
    rewrite forallb_forall in Hs. specialize (Hs e He). apply andb_true_iff in Hs as [H1 H2].
    split; [apply negb_true_iff; exact H1 | apply pkg_no_merge; exact H2].
Qed.

Lemma file_roundtrip r out :
  v2_merge_free r = true -> migrate r = MOk out -> reread out = Some out.
Proof.
  intros Hg Hm. apply migrate_ok in Hm as [-> _]. apply reread_id, root_no_merge, Hg.
Qed.
