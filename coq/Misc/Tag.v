(* The release tagger: tools/cmd/tag.go (Tagger.Tag, largestTagSemver, createTag) with the
   dry-run flag bound to the viper instance that is unmarshalled (fixes/c20-dry-run.diff),
   tags identified by their ref name (fixes/c20-tag-ref-name.diff) and the tag refs written
   directly, without go-git's DeleteTag (fixes/c20-packed-refs.diff: refs are a map from names
   to targets here; the damage DeleteTag does to .git/packed-refs has no counterpart).
   Model only; proofs are in Misc/Tag_proofs.v.

   A repository is seen as its list of refs (the order of the list is the order in which
   go-git's reference iterator yields them: unspecified, so an explicit argument), the
   commit HEAD resolves to, and whether the work tree is clean (go-git Worktree.Status). *)
From Coq Require Import NArith.
From Mk Require Import Lib.Bytes Misc.Semver.

(* what a ref points at: directly at a non-tag object, or at a tag object (annotated tag)
   whose "tag" header is [objname].  [r_target] is the fully peeled object (abstract id). *)
Inductive kind := Light | Annot (objname : str).
Record ref := { r_name : str; r_kind : kind; r_target : nat }.

Record input := {
  i_refs : list ref;          (* all refs: refs/heads/..., refs/tags/..., ... *)
  i_version : str;            (* VERSION from mockery-tools.env *)
  i_dirty : bool;             (* Worktree.Status is not clean *)
  i_dry : bool;               (* effective value of --dry-run (default true) *)
  i_head : option nat         (* None: HEAD does not resolve (no commit yet) *)
}.

Inductive exit_class := ExitOk | ExitNothing | ExitError.     (* 0 | 8 | 1 *)
Record outcome := {
  o_exit : exit_class;
  o_refs : list ref;
  o_stdout : option (str * str)     (* "v<requested>,v<previous>" *)
}.

Definition tag_prefix : str := B "refs/tags/".
(* ReferenceName.IsTag / Short *)
Definition short_tag (name : str) : option str :=
  if has_prefix name tag_prefix then Some (skipn (length tag_prefix) name) else None.
Fixpoint tag_names (rs : list ref) : list str :=
  match rs with
  | [] => []
  | r :: t => match short_tag (r_name r) with
              | Some n => n :: tag_names t
              | None => tag_names t
              end
  end.

(* one step of the loop in largestTagSemver: fewer than three dot-separated parts: not a
   full version tag, skipped; otherwise NewVersion must accept it, else the whole run fails *)
Inductive scan := ScanSkip | ScanErr | ScanVer (v : version).
Definition scan_name (n : str) : scan :=
  if length (split_on c_dot n) <? 3 then ScanSkip
  else match parse n with None => ScanErr | Some v => ScanVer v end.

Fixpoint largest (names : list str) (mj : N) (cur : version) : option version :=
  match names with
  | [] => Some cur
  | n :: t =>
    match scan_name n with
    | ScanSkip => largest t mj cur
    | ScanErr => None
    | ScanVer v => largest t mj (if gtb v cur && N.eqb (major v) mj then v else cur)
    end
  end.

Definition full_name (rv : version) : str := c_v :: print rv.            (* "v%s" *)
Definition major_name (rv : version) : str := hd [] (split_on c_dot (full_name rv)).
Definition tag_ref (short : str) : str := tag_prefix ++ short.

Fixpoint has_suffix_rev (rs rsuf : str) : bool :=      (* both reversed *)
  match rsuf, rs with
  | [], _ => true
  | x :: p, y :: s => beqb x y && has_suffix_rev s p
  | _ :: _, [] => false
  end.
Definition has_suffix (s suf : str) : bool := has_suffix_rev (rev s) (rev suf).
(* ReferenceName.Validate: the only rule a name "v" ++ String() can break is
   "no component ends with .lock" *)
Definition ref_name_ok (short : str) : bool := negb (has_suffix short (B ".lock")).

(* the tag object is stored and the ref written (created or moved): an annotated tag at [h] *)
Definition create (rs : list ref) (short : str) (h : nat) : list ref :=
  filter (fun r => negb (seqb (r_name r) (tag_ref short))) rs
  ++ [{| r_name := tag_ref short; r_kind := Annot short; r_target := h |}].

Definition decide (i : input) : outcome :=
  let rs := i_refs i in
  match parse (i_version i) with
  | None => {| o_exit := ExitError; o_refs := rs; o_stdout := None |}
  | Some rv =>
    match largest (tag_names rs) (major rv) v0 with
    | None => {| o_exit := ExitError; o_refs := rs; o_stdout := None |}
    | Some prev =>
      let out := Some (print rv, print prev) in
      if negb (gtb rv prev) then {| o_exit := ExitNothing; o_refs := rs; o_stdout := out |}
      else if i_dirty i then {| o_exit := ExitError; o_refs := rs; o_stdout := out |}
      else match i_head i with
           | None => {| o_exit := ExitError; o_refs := rs; o_stdout := out |}
           | Some h =>
             if i_dry i then {| o_exit := ExitOk; o_refs := rs; o_stdout := out |}
             else if negb (ref_name_ok (full_name rv))
             then {| o_exit := ExitError; o_refs := rs; o_stdout := out |}
             else {| o_exit := ExitOk;
                     o_refs := create (create rs (full_name rv) h) (major_name rv) h;
                     o_stdout := out |}
           end
    end
  end.

(* ---------- vocabulary of the theorems ---------- *)
(* the full version tags of major [mj] among the tag names *)
Definition full_tag (names : list str) (mj : N) (v : version) : Prop :=
  exists n, In n names /\ scan_name n = ScanVer v /\ major v = mj.
Definition scan_error (names : list str) : Prop := exists n, In n names /\ scan_name n = ScanErr.
Definition newer_than_all (rv : version) (names : list str) : Prop :=
  gt rv v0 /\ forall v, full_tag names (major rv) v -> gt rv v.

(* the conditions under which the tool writes *)
Definition tags_now (i : input) (rv : version) (h : nat) : Prop :=
  i_dry i = false /\ i_dirty i = false /\ parse (i_version i) = Some rv /\
  ~ scan_error (tag_names (i_refs i)) /\ newer_than_all rv (tag_names (i_refs i)) /\
  i_head i = Some h /\ ref_name_ok (full_name rv) = true.

Definition lookup (name : str) (rs : list ref) : option ref :=
  find (fun r => seqb (r_name r) name) rs.
Definition new_tag (short : str) (h : nat) : ref :=
  {| r_name := tag_ref short; r_kind := Annot short; r_target := h |}.
