(* Correspondence harness for C19.
   case  = (decoded v2 tree, observed exit class of `mockery migrate`, parsed output file,
            observed exit class of `mockery showconfig` on that file)
   lcase = (a v3 tree, observed exit class of `mockery showconfig` on it)  - ties the key /
           shape sets of the loader model to the real strict loader. *)
From Coq Require Export ZArith.
From Mk Require Import Lib.Bytes Misc.Migrate.

Definition leaf_eqb (a b : yv) : bool :=
  match a, b with
  | YNull, YNull => true
  | YBool x, YBool y => Bool.eqb x y
  | YInt x, YInt y => Z.eqb x y
  | YStr x, YStr y => seqb x y
  | YList [], YList [] => true
  | YMap [], YMap [] => true
  | _, _ => false
  end.

Definition seg_eqb (a b : seg) : bool :=
  match a, b with
  | SK x, SK y => seqb x y
  | SI x, SI y => Nat.eqb x y
  | _, _ => false
  end.

Fixpoint path_eqb (a b : path) : bool :=
  match a, b with
  | [], [] => true
  | x :: a', y :: b' => seg_eqb x y && path_eqb a' b'
  | _, _ => false
  end.

Definition entry_eqb (a b : path * yv) : bool := path_eqb (fst a) (fst b) && leaf_eqb (snd a) (snd b).
Definition subset (a b : list (path * yv)) : bool := forallb (fun e => existsb (entry_eqb e) b) a.
(* the two key-path -> leaf lists are the same set (YAML mappings have unique keys) *)
Definition same_leaves (a b : list (path * yv)) : bool :=
  Nat.eqb (length a) (length b) && subset a b && subset b a.

(* the same tree up to the order of mapping entries (keys are unique in both: the model's by
   construction / wf_root, the observed one's because it comes from a parsed YAML document):
   same number of entries and every entry of [a] is in [b] with an equal value *)
Fixpoint yv_eqb (a b : yv) : bool :=
  match a, b with
  | YNull, YNull => true
  | YBool x, YBool y => Bool.eqb x y
  | YInt x, YInt y => Z.eqb x y
  | YStr x, YStr y => seqb x y
  | YList la, YList lb =>
    Nat.eqb (length la) (length lb) &&
    (fix go (la lb : list yv) : bool :=
       match la, lb with
       | [], [] => true
       | x :: ta, y :: tb => yv_eqb x y && go ta tb
       | _, _ => false
       end) la lb
  | YMap ma, YMap mb =>
    Nat.eqb (length ma) (length mb) &&
    forallb (fun e => match assoc (fst e) mb with
                      | Some v' => yv_eqb (snd e) v'
                      | None => false
                      end) ma
  | _, _ => false
  end.

Inductive obs := OOk | OErr | OPanic.

Definition lres_eqb (l : lresult) (o : obs) : bool :=
  match l, o with
  | LoadOk, OOk | LoadErr, OErr | LoadPanic, OPanic => true
  | _, _ => false
  end.

(* [c_badre]: the strings of the case that Go's regexp.Compile refuses (asked through
   harness/go/drv_regex for every string of the trees involved) *)
Record case := { c_in : v2root; c_exit : obs; c_out : option yv; c_load : option obs; c_badre : list str }.
Definition re_of (bad : list str) (s : str) : bool := negb (smem s bad).

(* known-finding classes the input belongs to (authoritative for the classification) *)
Definition guards (c : case) : bool := negb (v2_merge_free (c_in c)).

(* 0 = model and implementation agree; otherwise which observable differs *)
Definition check_case (c : case) : nat :=
  if guards c then 5 else                                          (* main stream stays outside C19-merge-key *)
  match migrate (c_in c), c_exit c, c_out c with
  | MOk t, OOk, Some o =>
    if negb (yv_eqb t o) then 1                                    (* written tree *)
    else match c_load c with
         | Some l => if lres_eqb (load (re_of (c_badre c)) o) l then 0 else 2          (* loader verdict on it *)
         | None => 0
         end
  | MOk _, _, _ => 3                                               (* exit class / file presence *)
  | MDecodeErr, OErr, None => 0
  | MDecodeErr, _, _ => 4
  end.

Fixpoint mismatches_from (i : nat) (cs : list case) : list nat :=
  match cs with
  | [] => []
  | c :: t => if Nat.eqb (check_case c) 0 then mismatches_from (S i) t else i :: mismatches_from (S i) t
  end.
Definition mismatches := mismatches_from 0.

(* what differs, for replay files: (code, leaves only in the model, leaves only in the output) *)
Definition diff (a b : list (path * yv)) := filter (fun e => negb (existsb (entry_eqb e) b)) a.
Definition explain (c : case) :=
  match migrate (c_in c), c_out c with
  | MOk t, Some o => (check_case c, diff (flatten t) (flatten o), diff (flatten o) (flatten t), Some (load (re_of (c_badre c)) o))
  | MOk t, None => (check_case c, flatten t, [], None)
  | MDecodeErr, _ => (check_case c, [], [], None)
  end.

(* witness stream of known finding C19-merge-key: the input is in the class, and what is read back
   from the written file (PyYAML; None = does not parse) and the loader's verdict are those of
   the encoder/reader model [reread] *)
Definition check_wcase (c : case) : bool :=
  guards c &&
  match migrate (c_in c), c_exit c with
  | MOk t, OOk =>
    match reread t, c_out c with
    | Some t', Some o =>
      yv_eqb t' o &&
      match c_load c with Some l => lres_eqb (load (re_of (c_badre c)) t') l | None => false end
    | None, None => match c_load c with Some OErr => true | _ => false end
    | _, _ => false
    end
  | _, _ => false
  end.
Fixpoint wmismatches_from (i : nat) (cs : list case) : list nat :=
  match cs with
  | [] => []
  | c :: t => if check_wcase c then wmismatches_from (S i) t else i :: wmismatches_from (S i) t
  end.
Definition wmismatches := wmismatches_from 0.

Record lcase := { l_tree : yv; l_obs : obs; l_badre : list str }.
Definition check_lcase (c : lcase) : bool := lres_eqb (load (re_of (l_badre c)) (l_tree c)) (l_obs c).
Fixpoint lmismatches_from (i : nat) (cs : list lcase) : list nat :=
  match cs with
  | [] => []
  | c :: t => if check_lcase c then lmismatches_from (S i) t else i :: lmismatches_from (S i) t
  end.
Definition lmismatches := lmismatches_from 0.
