(* Correspondence harness for C17.  A case = one generated mock file:
   (formatter, template, boilerplate bytes, mock-build-tags text, package name) and what was
   observed: the file's bytes up to the end of the package clause line, go/ast.IsGenerated,
   and for several tag sets whether the go command listed the file. *)
From Mk Require Import Lib.Bytes Misc.Header.

Record case := {
  c_fmt : formatter; c_tmpl : tmpl; c_bp : option str; c_tags : option str; c_pkg : str;
  c_obs : str;                       (* observed file bytes through "package <name>" *)
  c_generated : bool;                (* go/ast.IsGenerated *)
  c_incl : list (list str * nat);    (* (tags that hold, 0 = in GoFiles | 1 = in IgnoredGoFiles | 2 = invalid/error) *)
  c_quiet : bool; c_verbatim : bool; c_nodneg : bool   (* the generator's classification *)
}.

Definition model_prefix (c : case) : str :=
  header (c_fmt c) (c_tmpl c) (c_bp c) (c_tags c) ++ pkg_line (c_pkg c).
Definition model_lines (c : case) : list str :=
  file_lines (c_fmt c) (c_tmpl c) (c_bp c) (c_tags c) (c_pkg c).

Definition verdict_code (v : verdict) : nat :=
  match v with
  | Included => 0 | Excluded => 1 | BadConstraint | MultipleGoBuild => 2
  | Unmodelled => 3 | FuelOut => 4
  end.

Definition expr_of (c : case) : option expr :=
  match c_tags c with
  | None => None
  | Some x => match parse_line (trim (GOBUILD ++ x20 :: x)) with LOk e => Some e | _ => None end
  end.

Definition bp_quiet (c : case) : bool := match c_bp c with Some b => quiet b | None => true end.
Definition bp_verbatim (c : case) : bool :=
  match c_fmt c, c_bp c with
  | Noop, _ => true
  | _, None => true
  | _, Some b => fmt_verbatim_guard b
  end.
Definition expr_nodneg (c : case) : bool :=
  match expr_of c with Some e => no_dneg e | None => true end.

(* ids of the checks that fail *)
Definition failures (c : case) : list nat :=
  (if seqb (model_prefix c) (c_obs c) then [] else [1]) ++
  (if Bool.eqb (is_generated false (model_lines c)) (c_generated c) then [] else [2]) ++
  (if forallb (fun p => Nat.eqb (verdict_code (should_build (fun t => smem t (fst p)) (model_lines c))) (snd p))
              (c_incl c) then [] else [3]) ++
  (if Bool.eqb (bp_quiet c) (c_quiet c) && Bool.eqb (bp_verbatim c) (c_verbatim c)
      && Bool.eqb (expr_nodneg c) (c_nodneg c) then [] else [4]).

Definition check_case (c : case) : bool := match failures c with [] => true | _ => false end.

Fixpoint mismatches_from (i : nat) (cs : list case) : list nat :=
  match cs with
  | [] => []
  | c :: t => if check_case c then mismatches_from (S i) t else i :: mismatches_from (S i) t
  end.
Definition mismatches := mismatches_from 0.

(* for replay files: what the model expects *)
Definition explain (c : case) :=
  (failures c, model_prefix c,
   map (fun p => verdict_code (should_build (fun t => smem t (fst p)) (model_lines c))) (c_incl c),
   (bp_quiet c, bp_verbatim c, expr_nodneg c)).

(* Regeneration histories: the steps of one history are runs over the same output path (all with
   force-file-write: true), each observed right after its run.  Every step is also an ordinary
   case; here the model's [regen] is evaluated over the whole history and compared with what was
   observed after the last run of every prefix of the history (the steps are also checked as
   ordinary cases by [mismatches]). *)
Definition settings_of (c : case) : settings :=
  {| s_fmt := c_fmt c; s_tmpl := c_tmpl c; s_bp := c_bp c; s_tags := c_tags c; s_pkg := c_pkg c |}.

Fixpoint hist_ok_from (done : list (bool * settings)) (steps : list case) : bool :=
  match steps with
  | [] => true
  | c :: t =>
    let h := done ++ [(true, settings_of c)] in
    match regen (fun _ => []) None h with
    | Some content => seqb content (c_obs c) && hist_ok_from h t
    | None => false
    end
  end.
Definition hist_ok (steps : list case) : bool := hist_ok_from [] steps.

Fixpoint hist_mismatches_from (i : nat) (hs : list (list case)) : list nat :=
  match hs with
  | [] => []
  | h :: t => if hist_ok h then hist_mismatches_from (S i) t else i :: hist_mismatches_from (S i) t
  end.
Definition hist_mismatches := hist_mismatches_from 0.

(* Several files written by ONE mockery run.  [m_fs] = content of the file every configured
   boilerplate path string resolves to (resolved by the harness on the real file system);
   [m_files] = (configured boilerplate-file string, case) per output file.  The model's
   [run_all] is evaluated over all jobs of the run and compared file by file; every file is
   also checked as an ordinary case (with its own boilerplate bytes). *)
Record mrun := { m_fs : list (str * str); m_files : list (option str * case) }.

Fixpoint assoc (k : str) (l : list (str * str)) : option str :=
  match l with [] => None | (k', v) :: t => if seqb k k' then Some v else assoc k t end.

Definition job_of (pc : option str * case) : job :=
  let c := snd pc in
  {| j_fmt := c_fmt c; j_tmpl := c_tmpl c; j_bpfile := fst pc; j_tags := c_tags c; j_pkg := c_pkg c |}.

Fixpoint all2 {A B} (f : A -> B -> bool) (a : list A) (b : list B) : bool :=
  match a, b with
  | [], [] => true
  | x :: a', y :: b' => f x y && all2 f a' b'
  | _, _ => false
  end.

Definition mrun_ok (m : mrun) : bool :=
  all2 (fun r pc => match r with
                    | Some content => seqb content (c_obs (snd pc))
                    | None => false
                    end)
       (run_all (fun _ => []) (fun p => assoc p (m_fs m)) (map job_of (m_files m))) (m_files m).

Fixpoint mrun_mismatches_from (i : nat) (ms : list mrun) : list nat :=
  match ms with
  | [] => []
  | m :: t => if mrun_ok m then mrun_mismatches_from (S i) t else i :: mrun_mismatches_from (S i) t
  end.
Definition mrun_mismatches := mrun_mismatches_from 0.

(* A file shared by several mocks: [sf_mocks] = (boilerplate bytes, tag text) of every mock of the
   file in the order in which they are added; [sf_case] = the file as an ordinary case (its
   settings must be the ones the model selects).  The model's [shared_prefix] is compared with
   the observed bytes. *)
Record sfile := { sf_mocks : list (option str * option str); sf_case : case }.

Definition oeqb (a b : option str) : bool :=
  match a, b with None, None => true | Some x, Some y => seqb x y | _, _ => false end.

Definition sfile_ok (s : sfile) : bool :=
  let c := sf_case s in
  let mocks := map (fun m => {| s_fmt := c_fmt c; s_tmpl := c_tmpl c; s_bp := fst m; s_tags := snd m; s_pkg := c_pkg c |}) (sf_mocks s) in
  match file_settings mocks, shared_prefix mocks with
  | Some m, Some p => oeqb (s_bp m) (c_bp c) && oeqb (s_tags m) (c_tags c) && seqb p (c_obs c)
  | _, _ => false
  end.

Fixpoint sfile_mismatches_from (i : nat) (l : list sfile) : list nat :=
  match l with
  | [] => []
  | s :: t => if sfile_ok s then sfile_mismatches_from (S i) t else i :: sfile_mismatches_from (S i) t
  end.
Definition sfile_mismatches := sfile_mismatches_from 0.
