(* Correspondence harness for C09 (and, re-exported, C10).
   Pipeline case = (world, keys of the output-file map, observed exit class, observed final
   nodes at every path that existed before or after the run or is a designated output).
   The map order that the implementation used is not observable: the model must reproduce
   the observation for at least one order.
   go.mod case = (text, are the go/require/retract statements well formed, observed answer
   of findPkgPath for the module root and for the sub-directory `sub`). *)
From Mk Require Import Lib.Bytes Cfg.Fs Cfg.GoMod Cfg.Pipeline Cfg.Env.

Fixpoint assoc {A} (l : list (path * A)) (p : path) : option A :=
  match l with
  | [] => None
  | (q, a) :: t => if path_eqb q p then Some a else assoc t p
  end.
Definition fs_of (l : list (path * node)) : fs := assoc l.
Definition set_of (l : list path) : path -> bool := fun p => existsb (path_eqb p) l.
Fixpoint sassoc {A} (l : list (str * A)) (k : str) : option A :=
  match l with
  | [] => None
  | (q, a) :: t => if seqb q k then Some a else sassoc t k
  end.
Definition content_of (l : list (str * str)) : str -> str :=
  fun k => match sassoc l k with Some c => c | None => [] end.
Definition sset_of (l : list str) : str -> bool := fun k => smem k l.
(* templates by name: (name, kind is remote, found, parses); anything else is an unknown builtin name *)
Definition tinfo_of (l : list (str * (bool * bool * bool))) : str -> tinfo :=
  fun k => match sassoc l k with
           | Some (r, f, p) => {| ti_kind := if r then TRemote else TBuiltin; ti_found := f; ti_parses := p |}
           | None => {| ti_kind := TBuiltin; ti_found := false; ti_parses := true |}
           end.
Definition rx_of (valid : bool) (l : list str) : rx :=
  if valid then RxOk (fun s => smem s l) else RxBad.
Definition orx_of (set valid : bool) (l : list str) : option rx :=
  if set then Some (rx_of valid l) else None.

Definition node_eqb (a b : option node) : bool :=
  match a, b with
  | None, None => true
  | Some Dir, Some Dir => true
  | Some (File x), Some (File y) => seqb x y
  | _, _ => false
  end.
Definition exit_eqb (a b : exit_class) : bool :=
  match a, b with
  | Exit0, Exit0 | ExitErr, ExitErr | Panic, Panic => true
  | _, _ => false
  end.

Fixpoint inserts {A} (x : A) (l : list A) : list (list A) :=
  match l with
  | [] => [[x]]
  | y :: t => (x :: l) :: map (cons y) (inserts x t)
  end.
Fixpoint perms {A} (l : list A) : list (list A) :=
  match l with
  | [] => [[]]
  | x :: t => flat_map (inserts x) (perms t)
  end.

Record case := {
  c_world : world;
  c_outs : list str;               (* keys of the output-file map *)
  c_exit : exit_class;
  c_final : list (path * option node)
}.

Definition agrees (c : case) (ord : list str) : bool :=
  let r := run (c_world c) ord in
  exit_eqb (fst r) (c_exit c) &&
  forallb (fun pn => node_eqb (snd r (fst pn)) (snd pn)) (c_final c).
Definition check_case (c : case) : bool := existsb (agrees c) (perms (c_outs c)).

Fixpoint mismatches_from (i : nat) (cs : list case) : list nat :=
  match cs with
  | [] => []
  | c :: t => if check_case c then mismatches_from (S i) t else i :: mismatches_from (S i) t
  end.
Definition mismatches := mismatches_from 0.

(* what the model says for the first order (for replay files) *)
Definition model_out (c : case) : exit_class * list (path * option node) :=
  let r := run (c_world c) (c_outs c) in
  (fst r, map (fun pn => (fst pn, snd r (fst pn))) (c_final c)).

(* ---------- go.mod ---------- *)
Inductive gobs := GOk (root sub : str) | GErr | GPanic.
Record gcase := { g_text : str; g_aux_ok : bool; g_obs : gobs }.

(* paths that Clean leaves alone *)
Definition simple_char (b : byte) : bool :=
  let n := bnat b in
  (Nat.leb 48 n && Nat.leb n 57) || (Nat.leb 65 n && Nat.leb n 90) || (Nat.leb 97 n && Nat.leb n 122) ||
  beqb b x2e || beqb b x5f || beqb b x7e || beqb b x2d || beqb b x2f.
Fixpoint no_bad_pair (s : str) : bool :=
  match s with
  | a :: r => match r with
              | b :: _ => negb (beqb a x2f && (beqb b x2f || beqb b x2e)) && no_bad_pair r
              | [] => negb (beqb a x2f)
              end
  | [] => true
  end.
Definition is_simple_path (p : str) : bool :=
  match p with
  | [] => false
  | a :: _ => negb (beqb a x2f) && negb (beqb a x2e) && forallb simple_char p && no_bad_pair p
  end.

Definition gcheck (c : gcase) : bool :=
  match module_path (fun _ => g_aux_ok c) (g_text c), g_obs c with
  | MOk p, GOk q s => if is_simple_path p then seqb p q && seqb (p ++ B "/sub") s else true
  | MErr, GErr => true
  | MUnsup, GOk _ _ => true
  | MUnsup, GErr => true
  | _, _ => false
  end.

Fixpoint gmismatches_from (i : nat) (cs : list gcase) : list nat :=
  match cs with
  | [] => []
  | c :: t => if gcheck c then gmismatches_from (S i) t else i :: gmismatches_from (S i) t
  end.
Definition gmismatches := gmismatches_from 0.

(* ---------- MOCKERY_<BOOL KEY>=value on an otherwise valid configuration ---------- *)
Record ecase := { e_val : str; e_exit : exit_class }.
Definition echeck (c : ecase) : bool :=
  match env_bool_key (e_val c), e_exit c with
  | EnvUsed _, Exit0 => true
  | EnvRefused, ExitErr => true
  | _, _ => false
  end.
Fixpoint emismatches_from (i : nat) (cs : list ecase) : list nat :=
  match cs with
  | [] => []
  | c :: t => if echeck c then emismatches_from (S i) t else i :: emismatches_from (S i) t
  end.
Definition emismatches := emismatches_from 0.
