(* Correspondence harness for C02.
   case  : one mock type of one generated file: the declaration environment of the module
           (source package, extra declarations, foreign and stdlib interfaces), the mocked
           interface, template and options, and what go/parser (harness/go/mockcount) found in the
           file the real mockery wrote: every method declared with the mock type as receiver
           as (name, number of parameters, variadic, number of results), sorted by name.
           The model side evaluates the SPECIFICATION [method_set] on the declarations, hands the
           result to the data model of Gen/Render.v (gen_file) and lists the methods that the
           template declares ([iface_methods] + own API).
   gcase : one mockery run's grouping: the requests (interface, configs entry, file, struct name)
           in the order mockery processes them, and the mock struct types found per output file. *)
From Coq Require Export NArith.
From Mk Require Import Lib.Bytes Gen.Alloc Gen.Types Gen.Render Gen.MethodSet.

Definition nl : label := nolabel.
Definition L (n : str) : label := named_label n.
Definition FL (n tag : str) (f : bool) : label := {| lname := n; ltag := tag; lflag := f |}.

Definition shape := (str * (nat * bool * nat))%type.

Definition shape_eqb (a b : shape) : bool :=
  let '(n, (p, v, r)) := a in let '(n', (p', v', r')) := b in
  seqb n n' && Nat.eqb p p' && Bool.eqb v v' && Nat.eqb r r'.

Fixpoint list_eqb {A} (e : A -> A -> bool) (a b : list A) : bool :=
  match a, b with
  | [], [] => true
  | x :: a', y :: b' => e x y && list_eqb e a' b'
  | _, _ => false
  end.

Fixpoint sh_insert (x : shape) (l : list shape) : list shape :=
  match l with
  | [] => [x]
  | y :: r => if sltb (fst y) (fst x) then y :: sh_insert x r else x :: l
  end.
Definition sh_sort (l : list shape) : list shape := fold_right sh_insert [] l.

Definition last_ell (l : list arg) : bool := match rev l with a :: _ => a_ell a | [] => false end.
Definition shape_of (m : mmeth) : shape := (mm_name m, (length (mm_params m), last_ell (mm_params m), length (mm_results m))).

(* the own API with its arities: EXPECT() *Expecter; MCalls() []struct{...}; ResetMCalls(); ResetCalls() *)
Definition own_shapes (t : tmpl) (wr : bool) (names : list str) : list shape :=
  match t with
  | Testify => [(B "EXPECT", (0, false, 1))]
  | Matryer =>
      map (fun n => (n ++ B "Calls", (0, false, 1))) names ++
      (if wr then map (fun n => (B "Reset" ++ n ++ B "Calls", (0, false, 0))) names ++ [(B "ResetCalls", (0, false, 0))] else [])
  end.

Record case := {
  c_env : denv; c_fuel : nat;
  c_pkg : str; c_name : str; c_tps : items ty;
  c_names : list (str * str);
  c_dst : str; c_inpkg : bool; c_struct : str;
  c_tmpl : tmpl; c_resets : bool;
  c_obs : list shape;
  c_obs_tps : list str          (* the names in the type parameter list of the mock struct, as written in the file *)
}.

Definition case_ctx (c : case) : ctx :=
  {| cx_names := c_names c; cx_lower := []; cx_upper := []; cx_exported := exported_ascii |}.

(* what the specification says the method set is *)
Definition spec_set (c : case) : result (list meth) := method_set (c_env c) (c_fuel c) (c_pkg c) (c_name c).
Definition spec_names (c : case) : list str :=
  match spec_set c with Ok ms => map m_name ms | Err _ => [B "<error>"] end.

Definition model_shapes (c : case) : option (list shape) :=
  match spec_set c with
  | Err _ => None
  | Ok ms =>
      let f := gen_file (case_ctx c) (c_dst c) (c_inpkg c) [mock_iface (c_name c) (c_struct c) (c_tps c) ms] in
      match f_ifaces f with
      | [id] => Some (sh_sort (map shape_of (iface_methods (c_tmpl c) id) ++
                               own_shapes (c_tmpl c) (c_resets c) (map dname (i_methods id))))
      | _ => None
      end
  end.

(* the type parameter names of the mock type: Generate reaches typeParams after the methods of the
   interface, with the registry they left behind.  (The case is modelled as the only interface of its
   file; the qualifiers of the other interfaces' imports are visible in the real scope too, the
   generator keeps blank parameters' constraints away from them.) *)
Definition model_tparams (c : case) : option (list str) :=
  match spec_set c with
  | Err _ => None
  | Ok ms =>
      let cx := case_ctx c in
      let i := mock_iface (c_name c) (c_struct c) (c_tps c) ms in
      let r0 := {| dst := c_dst c; inpkg := c_inpkg c; imports := [] |} in
      let r1 := fst (methods_data cx (map (fun it => lname (fst it)) (if_tparams i)) r0 (if_methods i)) in
      printed_tparams cx r1 (c_tps c)
  end.

Definition check_case (c : case) : bool :=
  match model_shapes c, model_tparams c with
  | Some l, Some tp => list_eqb shape_eqb l (c_obs c) && list_eqb seqb tp (c_obs_tps c)
  | _, _ => false
  end.

Fixpoint mismatches_from (i : nat) (cs : list case) : list nat :=
  match cs with
  | [] => []
  | c :: t => if check_case c then mismatches_from (S i) t else i :: mismatches_from (S i) t
  end.
Definition mismatches := mismatches_from 0.

(* ---------- grouping ---------- *)
Record gcase := { g_reqs : list req; g_obs : list (str * list str) }.

Definition g_model (c : gcase) : list (str * list str) := map (fun fl => (fst fl, mock_types (snd fl))) (group (g_reqs c)).

Definition g_check (c : gcase) : bool :=
  Nat.eqb (length (g_obs c)) (length (group (g_reqs c))) &&
  forallb (fun o => list_eqb seqb (mock_types (file_reqs (group (g_reqs c)) (fst o))) (snd o)) (g_obs c).

Fixpoint g_mismatches_from (i : nat) (cs : list gcase) : list nat :=
  match cs with
  | [] => []
  | c :: t => if g_check c then g_mismatches_from (S i) t else i :: g_mismatches_from (S i) t
  end.
Definition g_mismatches := g_mismatches_from 0.
