(* Correspondence harness for C04: a case = (mock description, history, observations). *)
From Mk Require Import Lib.Bytes Mock.Matryer.

Fixpoint list_eqb {A} (e : A -> A -> bool) (a b : list A) : bool :=
  match a, b with
  | [], [] => true
  | x :: a', y :: b' => e x y && list_eqb e a' b'
  | _, _ => false
  end.

Definition value_eqb (a b : value) : bool :=
  match a, b with
  | VTok x, VTok y => Nat.eqb x y
  | VNilSlice, VNilSlice => true
  | VSlice x, VSlice y => list_eqb Nat.eqb x y
  | _, _ => false
  end.

(* user function behaviours the Go driver can install *)
Inductive beh := BNil | BConst (rs : list value) | BPanic.
Definition beh_func (b : beh) : option ufunc :=
  match b with
  | BNil => None
  | BConst rs => Some (fun _ => URet rs)
  | BPanic => Some (fun _ => UPanic)
  end.

Inductive hop := HCall (m : str) (a : cargs) | HCalls (m : str) | HResetM (m : str) | HResetAll | HSetFunc (m : str) (b : beh).
Definition to_op (h : hop) : op :=
  match h with
  | HCall m a => Call m a | HCalls m => Calls m | HResetM m => ResetM m | HResetAll => ResetAll
  | HSetFunc m b => SetFunc m (beh_func b)
  end.

(* what the driver reports per step *)
Inductive obs :=
| ObUnit | ObNoMethod | ObIllTyped
| ObRet (rs : list value) (invoked : list (str * list value))
| ObPanicNil (msg : str)
| ObPanicUser (invoked : list (str * list value))
| ObRecords (l : list (list (str * value))).

Definition inv_of (ev : list event) := map (fun e => match e with EInvoke m a => (m, a) end) ev.
Definition obs_of (e : op * out * list event) : obs :=
  match e with
  | (_, OUnit, _) => ObUnit
  | (_, ONoMethod, _) => ObNoMethod
  | (_, OIllTyped, _) => ObIllTyped
  | (_, ORet rs, ev) => ObRet rs (inv_of ev)
  | (_, OPanicNil msg, _) => ObPanicNil msg
  | (_, OPanicUser, ev) => ObPanicUser (inv_of ev)
  | (_, ORecords l, _) => ObRecords l
  end.

Definition inv_eqb (a b : str * list value) := seqb (fst a) (fst b) && list_eqb value_eqb (snd a) (snd b).
Definition fld_eqb (a b : str * value) := seqb (fst a) (fst b) && value_eqb (snd a) (snd b).
Definition obs_eqb (a b : obs) : bool :=
  match a, b with
  | ObUnit, ObUnit | ObNoMethod, ObNoMethod | ObIllTyped, ObIllTyped => true
  | ObRet r i, ObRet r' i' => list_eqb value_eqb r r' && list_eqb inv_eqb i i'
  | ObPanicNil m, ObPanicNil m' => seqb m m'
  | ObPanicUser i, ObPanicUser i' => list_eqb inv_eqb i i'
  | ObRecords l, ObRecords l' => list_eqb (list_eqb fld_eqb) l l'
  | _, _ => false
  end.

Record case := { c_mock : mock; c_ops : list hop; c_obs : list obs }.

Definition model_obs (c : case) : list obs := map obs_of (trace (c_mock c) init (map to_op (c_ops c))).
Definition check_case (c : case) : bool := list_eqb obs_eqb (model_obs c) (c_obs c).

Fixpoint mismatches_from (i : nat) (cs : list case) : list nat :=
  match cs with
  | [] => []
  | c :: t => if check_case c then mismatches_from (S i) t else i :: mismatches_from (S i) t
  end.
Definition mismatches := mismatches_from 0.
