(* Correspondence harness for C04: a case = (mock description, history, observations). *)
From Mk Require Import Lib.Bytes Mock.Matryer.

Fixpoint list_eqb {A} (e : A -> A -> bool) (a b : list A) : bool :=
  match a, b with
  | [], [] => true
  | x :: a', y :: b' => e x y && list_eqb e a' b'
  | _, _ => false
  end.

Definition value_eqb (a b : value) : bool :=
  match a, b with
  | VTok x, VTok y => Nat.eqb x y
  | VNilSlice, VNilSlice => true
  | VSlice x, VSlice y => list_eqb Nat.eqb x y
  | _, _ => false
  end.
Definition fld_eqb (a b : str * value) := seqb (fst a) (fst b) && value_eqb (snd a) (snd b).
Definition out_eqb (a b : out) : bool :=
  match a, b with
  | OUnit, OUnit | ONoMethod, ONoMethod | OIllTyped, OIllTyped | OPanicUser, OPanicUser | OOutOfFuel, OOutOfFuel => true
  | ORet r, ORet r' => list_eqb value_eqb r r'
  | OPanicNil m, OPanicNil m' => seqb m m'
  | ORecords l, ORecords l' => list_eqb (list_eqb fld_eqb) l l'
  | _, _ => false
  end.

(* the driver gives every call this much fuel: at most 3 activations nested in each other *)
Definition FUEL := 3.

(* user function behaviours the Go driver can install: perform the nested operations in order
   (recovering their panics), then return the constants or panic *)
Inductive beh := BNil | BConst (first : bool) (nested : list nop) (rs : list value) | BPanic (first : bool) (nested : list nop).
Fixpoint seq_script (l : list nop) (r : ures) : script :=
  match l with
  | [] => SRet r
  | o :: t => SDo o (fun _ => seq_script t r)
  end.
(* [first]: the "only on the first attempt" idiom - the function first reads <M>Calls() of the method
   it serves and performs its nested operations only if the running call is the only record *)
Definition guarded (self : str) (first : bool) (l : list nop) (r : ures) : script :=
  if first
  then SDo (NCalls self) (fun x => match x with ORecords [_] => seq_script l r | _ => SRet r end)
  else seq_script l r.
Definition beh_func (self : str) (b : beh) : option ufunc :=
  match b with
  | BNil => None
  | BConst first l rs => Some (fun _ => guarded self first l (URet rs))
  | BPanic first l => Some (fun _ => guarded self first l UPanic)
  end.

Inductive hop := HCall (m : str) (a : cargs) | HCalls (m : str) | HResetM (m : str) | HResetAll | HSetFunc (m : str) (b : beh)
               | HKeep (id : nat) (m : str)       (* <M>Calls(), the test keeps the returned slice itself *)
               | HRecheck (id : nat).             (* the test looks at the kept slice again *)
Definition to_top (h : hop) : top :=
  match h with
  | HCall m a => TOp (Call m a) | HCalls m => TOp (Calls m) | HResetM m => TOp (ResetM m) | HResetAll => TOp ResetAll
  | HSetFunc m b => TOp (SetFunc m (beh_func m b))
  | HKeep id m => TKeep id m
  | HRecheck id => TRecheck id
  end.

(* what the driver sees while a call runs, in order: user-function invocations with the values
   received, and the outcome of every nested operation *)
Inductive ievent := IInv (m : str) (args : list value) | INest (x : out).
Inductive obs :=
| ObUnit | ObNoMethod | ObIllTyped
| ObRet (rs : list value) (seen : list ievent)
| ObPanicNil (msg : str)
| ObPanicUser (seen : list ievent)
| ObOutOfFuel (seen : list ievent)
| ObRecords (l : list (list (str * value)))
| ObDeadlock.          (* the operation never returned (driver watchdog); the model never produces it *)

Definition seen_of (ev : list event) : list ievent :=
  flat_map (fun e => match e with EInvoke m a => [IInv m a] | ENested _ x => [INest x] | _ => [] end) ev.
Definition obs_of {A} (e : A * out * list event) : obs :=
  match e with
  | (_, OUnit, _) => ObUnit
  | (_, ONoMethod, _) => ObNoMethod
  | (_, OIllTyped, _) => ObIllTyped
  | (_, ORet rs, ev) => ObRet rs (seen_of ev)
  | (_, OPanicNil msg, _) => ObPanicNil msg
  | (_, OPanicUser, ev) => ObPanicUser (seen_of ev)
  | (_, ORecords l, _) => ObRecords l
  | (_, OOutOfFuel, ev) => ObOutOfFuel (seen_of ev)
  end.

Definition ievent_eqb (a b : ievent) :=
  match a, b with
  | IInv m x, IInv m' x' => seqb m m' && list_eqb value_eqb x x'
  | INest x, INest x' => out_eqb x x'
  | _, _ => false
  end.
Definition obs_eqb (a b : obs) : bool :=
  match a, b with
  | ObUnit, ObUnit | ObNoMethod, ObNoMethod | ObIllTyped, ObIllTyped => true
  | ObRet r i, ObRet r' i' => list_eqb value_eqb r r' && list_eqb ievent_eqb i i'
  | ObPanicNil m, ObPanicNil m' => seqb m m'
  | ObPanicUser i, ObPanicUser i' => list_eqb ievent_eqb i i'
  | ObOutOfFuel i, ObOutOfFuel i' => list_eqb ievent_eqb i i'
  | ObRecords l, ObRecords l' => list_eqb (list_eqb fld_eqb) l l'
  | _, _ => false
  end.

Record case := { c_mock : mock; c_ops : list hop; c_obs : list obs }.

Definition model_obs (c : case) : list obs := map obs_of (ttrace FUEL (c_mock c) (init, fun _ => None) (map to_top (c_ops c))).
Definition check_case (c : case) : bool := list_eqb obs_eqb (model_obs c) (c_obs c).

Fixpoint mismatches_from (i : nat) (cs : list case) : list nat :=
  match cs with
  | [] => []
  | c :: t => if check_case c then mismatches_from (S i) t else i :: mismatches_from (S i) t
  end.
Definition mismatches := mismatches_from 0.
