(* Correspondence harness for C08.
   A case = the abstract configuration (sources of the top level, packages section), the facts
   about the scratch module the model cannot know (discovered sub-packages, source inventory,
   which names the regular expressions match, pre-existing output files, what the planted
   schema files reject, expansion of the default value templates) and what was observed:
   the tree printed by `mockery showconfig` (one Initialize) and the result of a generation
   run (two Initialize calls, grouping, consumers). *)
From Coq Require Import ZArith.
From Mk Require Import Lib.Bytes Cfg.Json Cfg.Config.

(* ---------------------------------------------------------------- comparing configs *)
Definition oscalar_eqb (a b : option scalar) : bool :=
  match a, b with
  | Some x, Some y => scalar_eqb x y
  | None, None => true
  | _, _ => false
  end.

(* `config` (ConfigFile) is C11's; everything else is compared *)
Definition cmp_pparams : list pparam :=
  filter (fun p => negb (pparam_eqb p PConfigFile)) all_pparams.

Definition rt_sub (a b : rtmap) : bool :=
  forallb (fun e => match rget (fst e) a, rget (fst e) b with
                    | Some x, Some y => rkey_eqb x y
                    | _, _ => false
                    end) a.
Definition rt_eqb (a b : rtmap) : bool := rt_sub a b && rt_sub b a.

Fixpoint strs_eqb (a b : list str) : bool :=
  match a, b with
  | [], [] => true
  | x :: a', y :: b' => seqb x y && strs_eqb a' b'
  | _, _ => false
  end.

Definition esr_eqb (a b : option (list str)) : bool :=
  strs_eqb (match a with Some l => l | None => [] end) (match b with Some l => l | None => [] end).

Definition td_eqb (a b : obj) : bool := json_eqb (norm (JObj a)) (norm (JObj b)).

Definition cfg_eqb (a b : cfg) : bool :=
  forallb (fun p => oscalar_eqb (c_ptr a p) (c_ptr b p)) cmp_pparams
  && td_eqb (c_td a) (c_td b) && rt_eqb (c_rt a) (c_rt b) && esr_eqb (c_esr a) (c_esr b).

Fixpoint cfgs_eqb (a b : list cfg) : bool :=
  match a, b with
  | [], [] => true
  | x :: a', y :: b' => cfg_eqb x y && cfgs_eqb a' b'
  | _, _ => false
  end.

(* same keys, related values *)
Definition alist_eqb {A} (e : A -> A -> bool) (a b : list (str * A)) : bool :=
  Nat.eqb (length a) (length b)
  && forallb (fun x => match get (fst x) b with Some y => e (snd x) y | None => false end) a
  && forallb (fun y => has_key (fst y) a) b.

Definition icfg_eqb (m o : icfg) : bool :=
  cfg_eqb (ic_config m) (ic_config o)
  && cfgs_eqb (match ic_configs m with [] => [ic_config m] | l => l end) (ic_configs o).

Definition pcfg_eqb (m o : pcfg) : bool :=
  cfg_eqb (pc_config m) (pc_config o) && alist_eqb icfg_eqb (pc_ifaces m) (pc_ifaces o).

Definition tree_eqb (m o : tree) : bool :=
  cfg_eqb (t_root m) (t_root o) && alist_eqb pcfg_eqb (t_pkgs m) (t_pkgs o).

(* ---------------------------------------------------------------- observations of a run *)
Record iobs := { io_name : str; io_struct : str; io_td : obj; io_rt : rtmap }.
Record fobs := {
  fo_path : str; fo_pkgname : str; fo_template : str; fo_formatter : str;
  fo_td : obj; fo_ifaces : list iobs
}.
Inductive gobs := GErr | GOk (files : list fobs).

Record case := {
  k_env : cfg; k_file : cfg; k_flags : cfg;
  k_pkgs : list (str * pcfg);
  k_disc : list (str * list str);
  k_src : list (str * list str);
  k_rx : list (str * list str);
  k_existing : list str;
  k_schemas : list (str * option (list str));
  k_templates : list str;                                       (* template names / urls that exist *)
  k_expand : list (str * list (str * list (str * str)));      (* package -> interface -> expansions *)
  k_sigkeys : list rkey;                                        (* replaceable types in the fixture signatures *)
  k_tdkeys : option (list str * list str);                      (* builtin templates: only these keys of the file-level / interface-level template-data are observable, and only when truthy *)
  k_show : option tree;
  k_gen : option gobs
}.

Definition case_tree (c : case) : tree :=
  {| t_root := new_root_config (k_env c) (k_file c) (k_flags c); t_pkgs := k_pkgs c |}.

Definition case_rx (c : case) (r n : str) : bool :=
  match get r (k_rx c) with Some l => smem n l | None => false end.

Definition case_ex (c : case) (pkg name : str) : list (str * str) :=
  match get pkg (k_expand c) with
  | Some l => match get name l with Some e => e | None => [] end
  | None => []
  end.

(* the planted schema files reject a template-data map in which one of the listed keys is
   present with a non-string value *)
Definition accepts (rej : list str) (td : obj) : bool :=
  forallb (fun k => match get k td with Some (JStr _) | None => true | Some _ => false end) rej.

Definition file_fails (c : case) (f : fplan) : bool :=
  let fc := file_cfg f in
  (smem (f_path f) (k_existing c) && negb (is_true (c_ptr fc PForceFileWrite)))
  || negb (smem (f_template f) (k_templates c))                       (* "template '..' does not exist" / download error *)
  || existsb (fun mc => negb (smem (str_of (c_ptr (snd mc) PFormatter)) [B "goimports"; B "gofmt"; B "noop"]))
             (f_mocks f)                               (* Append: an unknown formatter on any mock of the file is an error *)
  || (is_true (c_ptr fc PRequireTemplateSchemaExists)
      && match get (str_of (c_ptr fc PTemplateSchema)) (k_schemas c) with
         | Some (Some rej) =>
           negb (accepts rej (c_td fc))
           || existsb (fun mc => negb (accepts rej (c_td (snd mc)))) (f_mocks f)
         | _ => true
         end).

Definition falsy (v : json) : bool := match v with JBool false | JNull => true | _ => false end.

Definition restrict_td (keys : option (list str)) (td : obj) : obj :=
  match keys with
  | None => td
  | Some ks => filter (fun e => smem (fst e) ks && negb (falsy (snd e))) (match norm (JObj td) with JObj l => l | _ => td end)
  end.

Definition model_iface (c : case) (mc : mock * cfg) : iobs :=
  {| io_name := m_iface (fst mc);
     io_struct := str_of (c_ptr (snd mc) PStructName);
     io_td := restrict_td (option_map snd (k_tdkeys c)) (c_td (snd mc));
     io_rt := flat_map (fun k => match rget k (c_rt (snd mc)) with Some v => [(k, v)] | None => [] end)
                       (k_sigkeys c) |}.

Definition model_file (c : case) (f : fplan) : fobs :=
  let fc := file_cfg f in
  {| fo_path := f_path f; fo_pkgname := f_pkgname f; fo_template := f_template f;
     fo_formatter := str_of (c_ptr fc PFormatter);
     fo_td := restrict_td (option_map fst (k_tdkeys c)) (c_td fc);
     fo_ifaces := map (model_iface c) (f_mocks f) |}.

Definition model_show (c : case) : outcome := initialize (case_rx c) (k_disc c) (case_tree c).

(* an interface listed in the configuration that the source package does not declare:
   "interface not found in source", exit status 1 after the files were written *)
Definition missing_listed (c : case) : bool :=
  existsb (fun e => existsb (fun i => negb (smem (fst i) (match get (fst e) (k_src c) with Some l => l | None => [] end)))
                            (pc_ifaces (snd e))) (k_pkgs c).

Definition model_gen (c : case) : gobs :=
  match run_config (case_rx c) (k_disc c) (case_tree c) with
  | Panic => GErr
  | Ok t2 =>
    match t_pkgs t2 with
    | [] => GErr                                   (* "no packages specified in config" *)
    | _ =>
      match make_plan (mocks_of (case_rx c) (case_ex c) t2 (k_src c)) with
      | PlanErr => GErr
      | PlanOk fs =>
        if existsb (file_fails c) fs || missing_listed c then GErr else GOk (map (model_file c) fs)
      end
    end
  end.

(* ---------------------------------------------------------------- comparison *)
Definition iobs_eqb (a b : iobs) : bool :=
  seqb (io_name a) (io_name b) && seqb (io_struct a) (io_struct b)
  && td_eqb (io_td a) (io_td b) && rt_eqb (io_rt a) (io_rt b).

Fixpoint iobss_eqb (a b : list iobs) : bool :=
  match a, b with
  | [], [] => true
  | x :: a', y :: b' => iobs_eqb x y && iobss_eqb a' b'
  | _, _ => false
  end.

Definition fobs_eqb (a b : fobs) : bool :=
  seqb (fo_path a) (fo_path b) && seqb (fo_pkgname a) (fo_pkgname b)
  && seqb (fo_template a) (fo_template b) && seqb (fo_formatter a) (fo_formatter b)
  && td_eqb (fo_td a) (fo_td b) && iobss_eqb (fo_ifaces a) (fo_ifaces b).

Fixpoint find_fobs (p : str) (l : list fobs) : option fobs :=
  match l with
  | [] => None
  | f :: t => if seqb p (fo_path f) then Some f else find_fobs p t
  end.

Definition gobs_eqb (m o : gobs) : bool :=
  match m, o with
  | GErr, GErr => true
  | GOk a, GOk b =>
    Nat.eqb (length a) (length b)
    && forallb (fun f => match find_fobs (fo_path f) b with Some g => fobs_eqb f g | None => false end) a
  | _, _ => false
  end.

Definition check_show (c : case) : bool :=
  match k_show c with
  | None => true
  | Some o => match model_show c with Ok t1 => tree_eqb t1 o | Panic => false end
  end.

Definition check_gen (c : case) : bool :=
  match k_gen c with
  | None => true
  | Some o => gobs_eqb (model_gen c) o
  end.

Definition check_case (c : case) : bool := check_show c && check_gen c.

Fixpoint mismatches_from (i : nat) (cs : list case) : list nat :=
  match cs with
  | [] => []
  | c :: t => if check_case c then mismatches_from (S i) t else i :: mismatches_from (S i) t
  end.
Definition mismatches := mismatches_from 0.

(* which half disagrees (for the replay file): 1 = showconfig, 2 = generation *)
Definition diagnose (c : case) : list nat :=
  (if check_show c then [] else [1]) ++ (if check_gen c then [] else [2]).
