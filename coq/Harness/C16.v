(* Correspondence harness for C16: a case = (function, arguments, observed result); the
   Unicode table of the run and the environment/file map are parameters of the check. *)
From Coq Require Import NArith ZArith.
From Mk Require Import Lib.Bytes Funcs.Utf8 Funcs.Strings Funcs.Arith Funcs.Case Funcs.Path Funcs.FuncMap.

Fixpoint list_eqb {A} (e : A -> A -> bool) (a b : list A) : bool :=
  match a, b with
  | [], [] => true
  | x :: a', y :: b' => e x y && list_eqb e a' b'
  | _, _ => false
  end.

Definition val_eqb (a b : val) : bool :=
  match a, b with
  | VBool x, VBool y => Bool.eqb x y
  | VStr x, VStr y => seqb x y
  | VList x, VList y => list_eqb seqb x y
  | VInt x, VInt y => Z.eqb x y
  | _, _ => false
  end.
Definition res_eqb (a b : res) : bool :=
  match a, b with
  | Val x, Val y => val_eqb x y
  | Panic, Panic => true
  | Err, Err => true
  | _, _ => false
  end.

(* rows dumped from Go's unicode package: (code point, (letter, upper, lower, toUpper, toLower)) *)
Definition utab := list (N * (bool * bool * bool * N * N)).
Fixpoint ulookup (t : utab) (r : N) : uinfo :=
  match t with
  | [] => {| u_letter := false; u_upper := false; u_lower := false; u_toupper := r; u_tolower := r |}
  | (k, (le, up, lo, tu, tl)) :: t' =>
    if N.eqb k r then {| u_letter := le; u_upper := up; u_lower := lo; u_toupper := tu; u_tolower := tl |}
    else ulookup t' r
  end.

Record case := { c_fn : fn; c_args : list arg; c_obs : res }.

Definition model_res (t : utab) (W : world) (c : case) : res := apply (ulookup t) W (c_fn c) (c_args c).
Definition check_case (t : utab) (W : world) (c : case) : bool := res_eqb (model_res t W c) (c_obs c).

Fixpoint mismatches_from (t : utab) (W : world) (i : nat) (cs : list case) : list nat :=
  match cs with
  | [] => []
  | c :: r => if check_case t W c then mismatches_from t W (S i) r else i :: mismatches_from t W (S i) r
  end.
Definition mismatches (t : utab) (W : world) := mismatches_from t W 0.
