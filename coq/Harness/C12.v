(* Correspondence harness for C12: a case = (configuration levels + retrievable files,
   observed exit class, observed set of output files present after the run). *)
From Mk Require Import Lib.Bytes Cfg.Schema.

Record case := { c_world : world;
                 c_exit : nat;             (* 0 = exit 0, 1 = exit 1, 2 = anything else (panic, signal) *)
                 c_present : list str;     (* output files present afterwards *)
                 c_extra : bool            (* a file nobody predicted appeared *) }.

Definition subset (a b : list str) : bool := forallb (fun x => smem x b) a.
Definition set_eqb (a b : list str) : bool := subset a b && subset b a.

Definition is_err (e : env) (f : filecfg) : bool :=
  match spec_file e f with FError => true | FWritten => false end.

(* The Go map order is not observable.  If the observation is explained by any order it is
   explained by this one: the files that are present first, then a failing one. *)
Definition witness_order (e : env) (present : list str) (fs : list filecfg) : list filecfg :=
  filter (fun f => smem (f_path f) present) fs
  ++ filter (fun f => negb (smem (f_path f) present) && is_err e f) fs
  ++ filter (fun f => negb (smem (f_path f) present) && negb (is_err e f)) fs.

Definition model_outcome (c : case) : option (exit_class * list str) :=
  match world_files (c_world c) with
  | None => None
  | Some fs => Some (run KTemplateSchema (w_env (c_world c))
                         (witness_order (w_env (c_world c)) (c_present c) fs))
  end.

Definition check_case (c : case) : bool :=
  negb (c_extra c) &&
  match model_outcome c with
  | None => Nat.eqb (c_exit c) 1 && match c_present c with [] => true | _ => false end
  | Some (ExitOk, w) => Nat.eqb (c_exit c) 0 && set_eqb w (c_present c)
  | Some (ExitErr, w) => Nat.eqb (c_exit c) 1 && set_eqb w (c_present c)
  end.

(* what the model says about every file, for replay files *)
Definition explain (c : case) : list (str * bool) :=
  match world_files (c_world c) with
  | None => []
  | Some fs => map (fun f => (f_path f, negb (is_err (w_env (c_world c)) f))) fs
  end.

Fixpoint mismatches_from (i : nat) (cs : list case) : list nat :=
  match cs with
  | [] => []
  | c :: t => if check_case c then mismatches_from (S i) t else i :: mismatches_from (S i) t
  end.
Definition mismatches := mismatches_from 0.
