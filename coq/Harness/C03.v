(* Correspondence harness for C03: a case = (mock model, constructor used?, behaviour table of the
   user functions, history, observed (outcome, events) per step). *)
From Coq Require Export ZArith.
From Mk Require Import Lib.Bytes Mock.Testify.

Fixpoint list_eqb {A} (e : A -> A -> bool) (a b : list A) : bool :=
  match a, b with
  | [], [] => true
  | x :: a', y :: b' => e x y && list_eqb e a' b'
  | _, _ => false
  end.

(* structural equality of observed values (not DeepEqual: functions are compared by token) *)
Fixpoint value_eqb (a b : value) {struct a} : bool :=
  match a, b with
  | VNil, VNil => true
  | VTok d k, VTok d' k' => dty_eqb d d' && Nat.eqb k k'
  | VSlice d l, VSlice d' l' =>
      dty_eqb d d' &&
      (fix go (l l' : list value) : bool :=
         match l, l' with
         | [], [] => true
         | x :: t, y :: t' => value_eqb x y && go t t'
         | _, _ => false
         end) l l'
  | _, _ => false
  end.

Definition errkind_eqb (a b : errkind) : bool :=
  match a, b with
  | ENoExpectation, ENoExpectation | EClosest, EClosest | EOverCalled, EOverCalled | EAssert, EAssert => true
  | _, _ => false
  end.

Definition event_eqb (a b : event) : bool :=
  match a, b with
  | EvLogf, EvLogf | EvFailNow, EvFailNow => true
  | EvErrorf k, EvErrorf k' => errkind_eqb k k'
  | EvCallback f l, EvCallback f' l' => Nat.eqb f f' && list_eqb value_eqb l l'
  | _, _ => false
  end.

Definition pclass_eqb (a b : pclass) : bool :=
  match a, b with
  | PNoReturn m, PNoReturn m' => seqb m m'
  | PTypeAssert, PTypeAssert | PGetRange, PGetRange | PErrorType, PErrorType
  | POnFunc, POnFunc | PFailNoTest, PFailNoTest | PRuntime, PRuntime => true
  | _, _ => false
  end.

Definition outcome_eqb (a b : outcome) : bool :=
  match a, b with
  | Returned l, Returned l' => list_eqb value_eqb l l'
  | TestFailed, TestFailed | Done, Done | IllTyped, IllTyped => true
  | Panicked p, Panicked p' => pclass_eqb p p'
  | _, _ => false
  end.

Definition obs_eqb (a b : outcome * list event) : bool :=
  outcome_eqb (fst a) (fst b) && list_eqb event_eqb (snd a) (snd b).

Record case := {
  c_im : iface_model;
  c_ctor : bool;
  c_beh : list (nat * list value);          (* user function f returns these constants *)
  c_ops : list wop;
  c_obs : list (outcome * list event)
}.

(* the driver stores only its token type (pointer to verifTok, type id 1) in interface-typed positions *)
Definition tok_ty : dty := DId 1 false.
Definition h_impl (_ : nat) (d : dty) : bool := dty_eqb d tok_ty.

Fixpoint h_lookup (tbl : list (nat * list value)) (f : nat) : list value :=
  match tbl with
  | [] => []
  | (g, r) :: t => if Nat.eqb f g then r else h_lookup t f
  end.
Definition h_beh (tbl : list (nat * list value)) (f : nat) (_ : list value) : list value := h_lookup tbl f.

Definition model_obs (c : case) : list (outcome * list event) :=
  snd (wrun h_impl (h_beh (c_beh c)) (c_im c) (new_mock (c_ctor c)) [] (c_ops c)).

Definition check_case (c : case) : bool := list_eqb obs_eqb (model_obs c) (c_obs c).

Fixpoint mismatches_from (i : nat) (cs : list case) : list nat :=
  match cs with
  | [] => []
  | c :: t => if check_case c then mismatches_from (S i) t else i :: mismatches_from (S i) t
  end.
Definition mismatches := mismatches_from 0.

(* short constructors used by the generated case files *)
Definition mkT (id : nat) (iface empty fn err nillable : bool) : sty :=
  {| s_id := id; s_iface := iface; s_empty := empty; s_fn := fn; s_error := err; s_nillable := nillable |}.
Definition mkP (n : str) (T : sty) : param := {| p_name := n; p_ty := T |}.
Definition mkM (n : str) (ps : list param) (va : bool) (E : sty) (rs : list sty) : msig :=
  {| ms_name := n; ms_params := ps; ms_variadic := va; ms_elem := E; ms_results := rs; ms_visible := [] |}.
Definition mkC (ms : list msig) (unroll ctor : bool) (beh : list (nat * list value)) (ops : list wop)
           (obs : list (outcome * list event)) : case :=
  {| c_im := {| im_methods := ms; im_unroll := unroll |}; c_ctor := ctor; c_beh := beh; c_ops := ops; c_obs := obs |}.
