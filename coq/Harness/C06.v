(* Correspondence harness for C06: the abstract configuration + tree of a case, what `go list`
   returns on the tree after the first run, and the observed (exit class, set of new paths) of
   the first run and of the rerun over its own output. *)
From Mk Require Import Lib.Bytes Cfg.Schema Gen.Alloc Cfg.Order.

Record case := { c_world : oworld;
                 c_subs2 : list (str * list str);   (* `go list p/...` on the tree after run 1 *)
                 c_exit1 : nat;                     (* 0 / 1 / 2 = other *)
                 c_new1 : list str;                 (* paths that exist after run 1 and not before *)
                 c_exit2 : nat;
                 c_new2 : list str }.               (* paths that exist after the rerun and not before it *)

Definition subset (a b : list str) : bool := forallb (fun x => smem x b) a.
Definition set_eqb (a b : list str) : bool := subset a b && subset b a.
Definition exit_nat (e : exit_class) : nat := match e with ExitOk => 0 | ExitErr => 1 end.

Definition run1 (c : case) := run_once (c_world c) (canonical (c_world c)).
Definition world2 (c : case) : oworld :=
  {| ow_root := ow_root (c_world c); ow_pkgs := ow_pkgs (c_world c); ow_subs := c_subs2 c;
     ow_tree := add_outputs (snd (run1 c)) (ow_tree (c_world c)); ow_env := ow_env (c_world c);
     ow_fl := ow_fl (c_world c); ow_km := ow_km (c_world c) |}.
Definition run2 (c : case) := run_once (world2 c) (canonical (world2 c)).

(* 0 = model and implementation agree, 1 = they disagree, 2 = input outside the guard *)
Definition check_case (c : case) : nat :=
  if negb (guard (c_world c)) then 2 else
  let '(e1, ws1) := run1 c in
  if negb (Nat.eqb (exit_nat e1) (c_exit1 c)) then 1 else
  match e1 with
  | ExitErr => 0                     (* a failing run may leave any subset of the files behind *)
  | ExitOk =>
    if negb (set_eqb (map wr_key ws1) (c_new1 c)) then 1 else
    if negb (guard (world2 c)) then 2 else
    let '(e2, ws2) := run2 c in
    if Nat.eqb (exit_nat e2) (c_exit2 c) && set_eqb (map wr_key ws2) (map wr_key ws1)
       && match c_new2 c with [] => true | _ => false end
    then 0 else 1
  end.

Fixpoint codes_from (code : nat) (i : nat) (cs : list case) : list nat :=
  match cs with
  | [] => []
  | c :: t => if Nat.eqb (check_case c) code then i :: codes_from code (S i) t else codes_from code (S i) t
  end.
Definition mismatches := codes_from 1 0.
Definition outside_guard := codes_from 2 0.

Definition explain (c : case) :=
  (guard (c_world c), exit_nat (fst (run1 c)), map wr_key (snd (run1 c)),
   guard (world2 c), exit_nat (fst (run2 c)), map wr_key (snd (run2 c))).
