(* Correspondence harness for C20: a case = (input as observed with the git CLI before the
   run, observed exit class, observed refs after the run, observed stdout). *)
From Coq Require Import NArith.
From Mk Require Import Lib.Bytes Misc.Semver Misc.Tag.

Definition kind_eqb (a b : kind) : bool :=
  match a, b with
  | Light, Light => true
  | Annot x, Annot y => seqb x y
  | _, _ => false
  end.
Definition ref_eqb (a b : ref) : bool :=
  seqb (r_name a) (r_name b) && kind_eqb (r_kind a) (r_kind b) && Nat.eqb (r_target a) (r_target b).
Definition exit_eqb (a b : exit_class) : bool :=
  match a, b with
  | ExitOk, ExitOk | ExitNothing, ExitNothing | ExitError, ExitError => true
  | _, _ => false
  end.
(* refs as a finite map (names are unique in a repository) *)
Definition refs_same (a b : list ref) : bool :=
  Nat.eqb (length a) (length b) && forallb (fun r => existsb (ref_eqb r) b) a
  && forallb (fun r => existsb (ref_eqb r) a) b.

(* stdout "v<requested>,v<previous>": requested verbatim; previous verbatim, or - when several
   tags have the same precedence (differ in build metadata only) - any of them *)
Definition out_ok (i : input) (m o : option (str * str)) : bool :=
  match m, o with
  | None, None => true
  | Some (r, p), Some (r', p') =>
    seqb r r' &&
    (seqb p p' ||
     match parse p, parse p' with
     | Some mv, Some pv =>
       match compare pv mv with Eq => true | _ => false end &&
       existsb (fun n => match scan_name n with ScanVer v => seqb (print v) p' | _ => false end)
               (tag_names (i_refs i))
     | _, _ => false
     end)
  | _, _ => false
  end.

Record case := { c_in : input; c_exit : exit_class; c_refs : list ref; c_out : option (str * str) }.

Definition check_case (c : case) : bool :=
  let o := decide (c_in c) in
  exit_eqb (o_exit o) (c_exit c) && refs_same (o_refs o) (c_refs c) && out_ok (c_in c) (o_stdout o) (c_out c).

Fixpoint mismatches_from (i : nat) (cs : list case) : list nat :=
  match cs with
  | [] => []
  | c :: t => if check_case c then mismatches_from (S i) t else i :: mismatches_from (S i) t
  end.
Definition mismatches := mismatches_from 0.
