(* Correspondence harness for C13: one output file rendered by the probe template.
   A case = package names, the interfaces of the file in Append order - each with the chain of
   replace-type maps written for its mock (most specific first) and its methods in go/types
   order - and what was observed: the type strings of every parameter and result, and the
   import list (path, qualifier) of the file. *)
From Mk Require Import Lib.Bytes Cfg.Json Cfg.Config Gen.Alloc Gen.Replace.

Record cif := { ci_name : str; ci_chain : list rtmap; ci_methods : list method }.

Record case := {
  k_names : list (str * str);
  k_dst : str;
  k_inpkg : bool;
  k_ifaces : list cif;
  k_decl : list (rkey * str);      (* generic replacement targets: type-parameter list of the declaration *)
  k_obs : list (str * list (str * list str * list str));
  k_imports : list (str * str)
}.

Definition cfg_of_rt (rt : rtmap) : cfg := {| c_ptr := fun _ => None; c_td := []; c_rt := rt; c_esr := None |}.

(* the mock's map: C08's merge over the written chain *)
Definition eff_rt (chain : list rtmap) : rtmap := c_rt (eff_cfg (map cfg_of_rt chain)).

Definition case_decl (c : case) (r : rkey) : str :=
  match rget r (map (fun e => (fst e, (snd e, snd e))) (k_decl c)) with Some d => fst d | None => [] end.

Definition model_ifaces (c : case) : list iface :=
  map (fun ci => {| i_name := ci_name ci; i_rt := resolve_targets (case_decl c) (eff_rt (ci_chain ci));
                    i_methods := ci_methods ci |}) (k_ifaces c).

Definition model_imports (c : case) : list (str * str) :=
  file_imports (k_names c) (k_dst c) (k_inpkg c) (model_ifaces c).

Definition model_obs (c : case) : list (str * list (str * list str * list str)) :=
  let imps := model_imports c in
  map (fun i => (i_name i, map (rendered_method imps) (iface_data i))) (model_ifaces c).

Fixpoint list_eqb {A} (e : A -> A -> bool) (a b : list A) : bool :=
  match a, b with
  | [], [] => true
  | x :: a', y :: b' => e x y && list_eqb e a' b'
  | _, _ => false
  end.

Definition meth_eqb (a b : str * list str * list str) : bool :=
  seqb (fst (fst a)) (fst (fst b)) && list_eqb seqb (snd (fst a)) (snd (fst b)) && list_eqb seqb (snd a) (snd b).

Definition check_case (c : case) : bool :=
  list_eqb (fun a b => seqb (fst a) (fst b) && list_eqb meth_eqb (snd a) (snd b)) (model_obs c) (k_obs c)
  && list_eqb (fun a b => seqb (fst a) (fst b) && seqb (snd a) (snd b)) (model_imports c) (k_imports c).

Fixpoint mismatches_from (i : nat) (cs : list case) : list nat :=
  match cs with
  | [] => []
  | c :: t => if check_case c then mismatches_from (S i) t else i :: mismatches_from (S i) t
  end.
Definition mismatches := mismatches_from 0.
