(* Harness for C05: the instruction lists goskel extracted from the freshly generated mock
   files (every path of every generated method), and the kernel-checked conditions that make
   the theorems of Properties/C05.v apply to them:
     - every path satisfies the lock discipline  [wl HNone path = true];
     - a call method appends exactly one entry to its own log on every returning path and
       touches no other log;  <M>Calls() takes exactly one snapshot of its own log and writes
       nothing;  Reset<M>Calls() / ResetCalls() clear exactly the logs they are named after;
     - a testify wrapper consists of locals and calls into the embedded mock.Mock only.   *)
From Mk Require Import Lib.Bytes Mock.Conc.

Inductive pend := PReturn | PPanic.
Inductive role := RCall (m : meth) | RCalls (m : meth) | RReset (m : meth) | RResetAll (ms : list meth) | RTestify.
Record body := { b_name : str; b_role : role; b_paths : list (pend * list instr) }.
Record gmock := { g_name : str; g_nmeth : nat; g_bodies : list body }.

Definition count (f : instr -> bool) (p : list instr) : nat := length (filter f p).
Definition only_log (m : meth) (p : list instr) : bool :=
  forallb (fun i => match acc_of i with Some (m', _) => Nat.eqb m' m | None => true end) p.
Definition only_logs (ms : list meth) (p : list instr) : bool :=
  forallb (fun i => match acc_of i with Some (m', _) => existsb (Nat.eqb m') ms | None => true end) p.
Definition is_app (i : instr) := match i with WriteApp _ _ => true | _ => false end.
Definition is_nil (m : meth) (i : instr) := match i with WriteNil m' => Nat.eqb m' m | _ => false end.
Definition is_anynil (i : instr) := match i with WriteNil _ => true | _ => false end.
Definition is_snap (m : meth) (i : instr) := match i with Snap m' => Nat.eqb m' m | _ => false end.
Definition is_write (i : instr) := match acc_of i with Some (_, true) => true | _ => false end.
Definition is_callfunc (i : instr) := match i with CallFunc _ => true | _ => false end.
Definition returns (b : body) : list (list instr) :=
  flat_map (fun x => match fst x with PReturn => [snd x] | PPanic => [] end) (b_paths b).

Definition body_ok (b : body) : bool :=
  forallb (fun x => wl HNone (snd x)) (b_paths b) &&
  match b_paths b with [] => false | _ => true end &&
  match b_role b with
  | RCall m =>
    match returns b with [] => false | _ => true end &&
    forallb (fun p => Nat.eqb (length (appends m p)) 1 && Nat.eqb (count is_app p) 1 && Nat.eqb (count is_anynil p) 0
                      && Nat.leb (count is_callfunc p) 1) (returns b) &&
    forallb (fun x => only_log m (snd x)) (b_paths b)
  | RCalls m =>
    forallb (fun x => only_log m (snd x) && Nat.eqb (count (is_snap m) (snd x)) 1 && Nat.eqb (count is_write (snd x)) 0) (b_paths b)
  | RReset m =>
    forallb (fun x => only_log m (snd x) && Nat.eqb (count (is_nil m) (snd x)) 1 && Nat.eqb (count is_app (snd x)) 0) (b_paths b)
  | RResetAll ms =>
    forallb (fun x => only_logs ms (snd x) && forallb (fun m => Nat.eqb (count (is_nil m) (snd x)) 1) ms
                      && Nat.eqb (count is_app (snd x)) 0) (b_paths b)
  | RTestify => forallb (fun x => forallb testify_instr (snd x)) (b_paths b)
  end.

Definition has_role (f : role -> bool) (g : gmock) : bool := existsb (fun b => f (b_role b)) (g_bodies g).
(* every method has its call method and its Calls accessor; resets come all together or not at all *)
Definition complete (g : gmock) : bool :=
  forallb (fun m => has_role (fun r => match r with RCall m' => Nat.eqb m' m | _ => false end) g &&
                    has_role (fun r => match r with RCalls m' => Nat.eqb m' m | _ => false end) g)
          (seq 0 (g_nmeth g)) &&
  (if has_role (fun r => match r with RReset _ | RResetAll _ => true | _ => false end) g
   then forallb (fun m => has_role (fun r => match r with RReset m' => Nat.eqb m' m | _ => false end) g) (seq 0 (g_nmeth g)) &&
        has_role (fun r => match r with RResetAll ms => forallb (fun m => existsb (Nat.eqb m) ms) (seq 0 (g_nmeth g)) | _ => false end) g
   else true).

Definition mock_ok (g : gmock) : bool := forallb body_ok (g_bodies g) && complete g.

(* for diagnostics: the names of the bodies that fail *)
Definition failing (gs : list gmock) : list (str * str) :=
  flat_map (fun g => flat_map (fun b => if body_ok b then [] else [(g_name g, b_name b)]) (g_bodies g)
                     ++ (if complete g then [] else [(g_name g, B "<incomplete>")])) gs.

(* all paths of all bodies, as goroutine programs for the theorems *)
Definition programs (gs : list gmock) : list (list instr) :=
  flat_map (fun g => flat_map (fun b => map snd (b_paths b)) (g_bodies g)) gs.
