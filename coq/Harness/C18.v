(* Correspondence harness for C18.  A case = one run of `mockery init` in a scratch directory:
   initial state of the target, value of --config, package argument; observed: exit status,
   whether the target / anything else changed, the written file as a raw YAML tree (no merge
   processing), and what `mockery showconfig --config <target>` makes of it. *)
From Mk Require Import Lib.Bytes Misc.Init.

(* initial state of the target path *)
Inductive istate := Absent | IsFile | IsDir | IsDangling | IsDanglingIntoDir | IsLinkToFile | NoParent | ParentIsFile.

Record shown := {
  s_packages : list (str * bool);      (* package keys as loaded back, with their effective `all` *)
  s_root : tree                        (* the loaded top-level values of the documented keys *)
}.

Record case := {
  c_state : istate; c_flag : str; c_pkg : str;
  c_exit : nat;                        (* 0 | 1 *)
  c_target_changed : bool;             (* the target was created or modified *)
  c_written : option tree;             (* raw tree of the target after the run, when it was created *)
  c_show : option shown;               (* None: showconfig failed (or was not run: nothing written) *)
  c_guarded : bool                     (* the generator's classification: package path in a known-finding class *)
}.

Definition target (c : case) : str := match c_flag c with [] => DEFAULT_TARGET | p => p end.

(* the abstract file system of the scratch directory, as far as init looks at it *)
Definition fs_of (c : case) : fs := fun q =>
  if seqb q (target c) then
    match c_state c with
    | IsFile => Some (File (B "old"))
    | IsDir => Some Dir
    | IsDangling => Some (Symlink (B "/nonexistent/x"))
    | IsDanglingIntoDir => Some (Symlink (B "shared/made-by-link.yml"))   (* the directory exists, the file does not *)
    | IsLinkToFile => Some (Symlink (B "other.file"))
    | _ => None
    end
  else if seqb q (dirname (target c)) then
    match c_state c with
    | NoParent => None
    | ParentIsFile => Some (File [])
    | _ => Some Dir
    end
  else None.

Fixpoint val_eqb (a b : val) : bool :=
  match a, b with
  | VBool x, VBool y => Bool.eqb x y
  | VStr x, VStr y => seqb x y
  | VMap m, VMap n =>
    (fix go (m n : list (str * val)) : bool :=
       match m, n with
       | [], [] => true
       | (k, x) :: m', (k', y) :: n' => seqb k k' && val_eqb x y && go m' n'
       | _, _ => false
       end) m n
  | _, _ => false
  end.
Definition tree_eqb (a b : tree) : bool := val_eqb (VMap a) (VMap b).

Definition model_outcome (c : case) : outcome := snd (init (fun _ => []) (fs_of c) (c_flag c) (c_pkg c)).

Definition shown_of (r : rootcfg) : shown :=
  {| s_packages := map (fun p => (fst p, get_bool (B "all") (p_config (snd p)))) (r_packages r);
     s_root := map (fun kv => (fst kv, match lookup (fst kv) (r_config r) with Some v => v | None => VStr [] end))
                   documented_defaults |}.

Fixpoint pk_eqb (a b : list (str * bool)) : bool :=
  match a, b with
  | [], [] => true
  | (k, x) :: a', (k', y) :: b' => seqb k k' && Bool.eqb x y && pk_eqb a' b'
  | _, _ => false
  end.

Definition show_eqb (a b : option shown) : bool :=
  match a, b with
  | None, None => true
  | Some x, Some y => pk_eqb (s_packages x) (s_packages y) && tree_eqb (s_root x) (s_root y)
  | _, _ => false
  end.

(* ids of failing checks: 1 exit status, 2 target created iff the model writes, 3 written tree,
   4 what the loader makes of the written tree, 5 guard classification (generator vs Coq) *)
Definition failures (c : case) : list nat :=
  let o := model_outcome c in
  (if Nat.eqb (exit_code o) (c_exit c) then [] else [1]) ++
  (if Bool.eqb (match o with Written => true | _ => false end) (c_target_changed c) then [] else [2]) ++
  (if Bool.eqb (seqb (c_pkg c) MERGE || negb (key_safe (c_pkg c))) (c_guarded c) then [] else [5]) ++
  match o with
  | Written =>
    (if key_safe (c_pkg c) then
       match c_written c with
       | Some t => if tree_eqb t (init_tree (c_pkg c)) then [] else [3]
       | None => [3]
       end
     else []) ++
    (if key_safe (c_pkg c) then
       match c_written c with
       | Some t => if show_eqb (option_map shown_of (load_tree t)) (c_show c) then [] else [4]
       | None => []
       end
     else [])
  | _ => []
  end.

Definition check_case (c : case) : bool := match failures c with [] => true | _ => false end.

Fixpoint mismatches_from (i : nat) (cs : list case) : list nat :=
  match cs with
  | [] => []
  | c :: t => if check_case c then mismatches_from (S i) t else i :: mismatches_from (S i) t
  end.
Definition mismatches := mismatches_from 0.

Definition explain (c : case) :=
  (failures c, model_outcome c, init_tree (c_pkg c),
   match c_written c with Some t => option_map shown_of (load_tree t) | None => None end).
