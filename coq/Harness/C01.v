(* Correspondence harness for C01.  A case = (template + options, template data dumped by the probe,
   skeleton extracted by goscope from the file the real template wrote for the same configuration). *)
From Mk Require Import Lib.Bytes Gen.Alloc Gen.Skeleton.

Inductive tmpl := Testify (o : topts) | Matryer (o : mopts).
Record case := { c_tmpl : tmpl; c_data : fdata; c_ext : skeleton }.

Definition model (c : case) : skeleton :=
  match c_tmpl c with
  | Testify o => testify_skel o (c_data c)
  | Matryer o => matryer_skel o (c_data c)
  end.
Definition guards (c : case) : bool :=
  match c_tmpl c with
  | Testify o => tf_guards (c_data c)
  | Matryer o => mt_guards o (c_data c)
  end.

(* which conjuncts of wf_file fail: 1 paths, 2 qualifiers, 3 unused import, 4 top-level names, 5 name/qualifier,
   6 name/package, 7 qualifier/package, 8 methods, 100+k declaration number k *)
Fixpoint bad_tops (c : fctx) (i : nat) (l : list top) : list nat :=
  match l with
  | [] => []
  | t :: r => (if wf_top c t then [] else [100 + i]) ++ bad_tops c (S i) r
  end.
Definition wf_failures (s : skeleton) : list nat :=
  let quals := filter (fun q => negb (seqb q blank) && negb (seqb q dot)) (map snd (s_imports s)) in
  let used := flat_map (fun t => flat_map qual_uses (t_items t)) (s_tops s) in
  let tops := top_names is_pkglevel s in
  let others := s_other_types s ++ s_other_vals s in
  (if nodupb (map fst (s_imports s)) then [] else [1]) ++ (if nodupb quals then [] else [2])
  ++ (if forallb (fun q => smem q used) quals then [] else [3])
  ++ (if nodupb tops then [] else [4]) ++ (if disjointb tops quals then [] else [5])
  ++ (if disjointb tops others then [] else [6]) ++ (if disjointb quals others then [] else [7])
  ++ (if nodupb (method_keys s) then [] else [8])
  ++ bad_tops (skel_ctx s) 0 (s_tops s).

(* which obligation of data_ok fails: 1 import paths, 2 qualifiers, 3 dot import, 4 an import no type needs, 5 no interface,
   6 builtins shadowed, 1000*(i+1) + 100*(j+1) + k: interface i, method j (0 = the interface itself), k: 1 names, 2 result names,
   3 exported names, 4 parameter types, 5 result types, 6 visible, 7 allocated names; interface: 1 type parameter names, 2 constraints *)
Fixpoint idx {A} (f : nat -> A -> list nat) (i : nat) (l : list A) : list nat :=
  match l with [] => [] | x :: t => f i x ++ idx f (S i) t end.
Definition data_failures (f : fdata) (c : fctx) : list nat :=
  (if nodupb (map fst (f_imports f)) then [] else [1]) ++ (if names_ok (map snd (f_imports f)) then [] else [2])
  ++ (if forallb (fun q => negb (seqb q dot)) (map snd (f_imports f)) then [] else [3])
  ++ (if forallb (fun q => smem q (all_type_quals f)) (map snd (f_imports f)) then [] else [4])
  ++ (if nonempty (f_ifaces f) then [] else [5]) ++ (if d_builtins c then [] else [6])
  ++ idx (fun i x =>
            let tps := iftps x in
            (if names_ok (map tdecl tps) then [] else [1000 * S i + 1])
            ++ (if forallb (fun t => types_known c tps (tcon t)) tps then [] else [1000 * S i + 2])
            ++ idx (fun j m =>
                      let b := 1000 * S i + 100 * S j in
                      (if names_ok (pnames (mps m)) then [] else [b + 1]) ++ (if names_ok (rnames (mrs m)) then [] else [b + 2])
                      ++ (if names_ok (pexps (mps m)) then [] else [b + 3])
                      ++ (if forallb (fun p => types_known c tps (pty p)) (mps m) then [] else [b + 4])
                      ++ (if forallb (fun r => types_known c tps (rty r)) (mrs m) then [] else [b + 5])
                      ++ (if forallb (fun n => smem n (mvisible m)) (pnames (mps m)) then [] else [b + 6])
                      ++ (if d_tf_names m then [] else [b + 7])) 0 (ifms x)) 0 (f_ifaces f).

Record verdict := { v_guards : bool; v_data : bool; v_names : bool; v_wf_model : bool; v_wf_ext : bool;
                    v_model_fail : list nat; v_ext_fail : list nat; v_diff : list nat; v_data_fail : list nat }.

Definition check_case (c : case) : verdict :=
  let m := model c in
  {| v_guards := guards c; v_data := data_ok (c_data c) (skel_ctx m)
               && match c_tmpl c with Matryer o => d_mt o (c_data c) (skel_ctx m) | Testify _ => d_tf (c_data c) end; v_names := file_names_ok m;
     v_wf_model := wf_file m; v_wf_ext := wf_file (c_ext c);
     v_model_fail := wf_failures m; v_ext_fail := wf_failures (c_ext c);
     v_diff := skel_diff m (c_ext c); v_data_fail := data_failures (c_data c) (skel_ctx m) |}.

(* main stream: inside all guards, data model sane, both skeletons well scoped, model = extracted *)
Definition case_ok (c : case) : bool :=
  let v := check_case c in
  v_guards v && v_data v && v_names v && v_wf_model v && v_wf_ext v
  && match v_diff v with [] => true | _ => false end.

Fixpoint mismatches_from (i : nat) (cs : list case) : list nat :=
  match cs with
  | [] => []
  | c :: t => if case_ok c then mismatches_from (S i) t else i :: mismatches_from (S i) t
  end.
Definition mismatches := mismatches_from 0.

(* translator lemma only (files for which no probe data exists) *)
Fixpoint ext_mismatches_from (i : nat) (l : list skeleton) : list nat :=
  match l with
  | [] => []
  | s :: t => if wf_file s then ext_mismatches_from (S i) t else i :: ext_mismatches_from (S i) t
  end.
Definition ext_mismatches := ext_mismatches_from 0.

(* generated names: (type name of an unnamed parameter, name the data model reports); and the reserved list of
   template/var.go as parsed from the source text of this run *)
Fixpoint gen_mismatches_from (i : nat) (l : list (str * str)) : list nat :=
  match l with
  | [] => []
  | (tn, obs) :: t => if seqb (gen_name tn) obs then gen_mismatches_from (S i) t else i :: gen_mismatches_from (S i) t
  end.
Definition gen_mismatches := gen_mismatches_from 0.
Fixpoint strs_eqb (a b : list str) : bool :=
  match a, b with [], [] => true | x :: a', y :: b' => seqb x y && strs_eqb a' b' | _, _ => false end.
Definition reserved_agrees (from_code : list str) : bool := strs_eqb from_code reserved_names.

