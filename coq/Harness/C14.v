(* Correspondence harness for C14: a case = one output file (destination path, in-package
   flag, package-name table, interfaces in file order with their go/types method order)
   plus everything the probe template harness/probes/c14_dump.templ printed, with every
   Go text replaced by the canonical S-expression of harness/go/gotype.  [dump] produces
   the same list from the model; the S-expression printers below mirror gotype's. *)
From Coq Require Export NArith.
From Mk Require Import Lib.Bytes Lib.Dec Gen.Alloc Gen.Types Gen.Render.

(* short constructors used by the generated case files *)
Definition nl : label := nolabel.
Definition L (n : str) : label := named_label n.
Definition FL (n tag : str) (f : bool) : label := {| lname := n; ltag := tag; lflag := f |}.

Definition hexd (n : nat) : byte :=
  match n with
  | 0 => "0" | 1 => "1" | 2 => "2" | 3 => "3" | 4 => "4" | 5 => "5" | 6 => "6" | 7 => "7"
  | 8 => "8" | 9 => "9" | 10 => "a" | 11 => "b" | 12 => "c" | 13 => "d" | 14 => "e" | _ => "f"
  end%byte.
Fixpoint hex (s : str) : str :=
  match s with
  | [] => []
  | c :: r => hexd (Nat.div (Byte.to_nat c) 16) :: hexd (Nat.modulo (Byte.to_nat c) 16) :: hex r
  end.
Definition taghex (s : str) : str := match s with [] => B "-" | _ => hex s end.

Definition sx_name (n : str) : str := match n with [] => B "-" | _ => B "n:" ++ n end.

Fixpoint sx (t : rty) : str :=
  match t with
  | RName q n targs =>
      let base := match q with [] => B "(id " ++ n ++ B ")" | _ => B "(sel " ++ q ++ B " " ++ n ++ B ")" end in
      match targs with
      | [] => base
      | _ => B "(inst " ++ base ++ concat (map (fun it => B " " ++ sx (snd it)) targs) ++ B ")"
      end
  | RPtr e => B "(ptr " ++ sx e ++ B ")"
  | RSlice e => B "(slice " ++ sx e ++ B ")"
  | RArray l e => B "(array " ++ dec l ++ B " " ++ sx e ++ B ")"
  | RMap k e => B "(map " ++ sx k ++ B " " ++ sx e ++ B ")"
  | RChan d e => B "(chan " ++ match d with DBoth => B "both" | DSend => B "send" | DRecv => B "recv" end ++ B " " ++ sx e ++ B ")"
  | RFunc ps v rs =>
      B "(func (params" ++
      (fix tup (l : list (label * rty)) : str :=
         match l with
         | [] => []
         | (lb, t) :: r =>
             B " (a " ++ sx_name (lname lb) ++ B " " ++
             match r, v, t with
             | [], true, RSlice e => B "(ell " ++ sx e ++ B ")"
             | _, _, _ => sx t
             end ++ B ")" ++ tup r
         end) ps ++
      B ") (results" ++ concat (map (fun it => B " (a " ++ sx_name (lname (fst it)) ++ B " " ++ sx (snd it) ++ B ")") rs) ++ B "))"
  | RStruct fs =>
      B "(struct" ++ concat (map (fun it =>
         if lflag (fst it) then B " (emb " ++ sx (snd it) ++ B " " ++ taghex (ltag (fst it)) ++ B ")"
         else B " (f " ++ lname (fst it) ++ B " " ++ sx (snd it) ++ B " " ++ taghex (ltag (fst it)) ++ B ")") fs) ++ B ")"
  | RIface ms es =>
      B "(iface" ++
      concat (map (fun it => B " (m " ++ lname (fst it) ++ B " " ++
                             match snd it with
                             | RFunc _ _ _ => skipn 6 (sx (snd it))     (* drop "(func " : leaves "(params ..) (results ..))" *)
                             | _ => sx (snd it) ++ B ")"
                             end) ms) ++
      concat (map (fun it => B " (e " ++ sx (snd it) ++ B ")") es) ++ B ")"
  | RUnion ts =>
      match ts with
      | [(lb, t)] => if lflag lb then B "(union (tilde " ++ sx t ++ B "))" else sx t
      | _ => B "(union" ++ concat (map (fun it => (if lflag (fst it) then B " (tilde " else B " (t ") ++ sx (snd it) ++ B ")") ts) ++ B ")"
      end
  end.

Definition sx_arg (a : arg) : str :=
  B " (a " ++ sx_name (a_name a) ++ B " " ++ (if a_ell a then B "(ell " ++ sx (a_ty a) ++ B ")" else sx (a_ty a)) ++ B ")".
Definition sx_params (l : list arg) : str := B "(params" ++ concat (map sx_arg l) ++ B ")".
Definition sx_rlist (l : list arg) : str := B "(results" ++ concat (map sx_arg l) ++ B ")".
Definition sx_results (l : list rty) : str := B "(results" ++ concat (map (fun t => B " (a - " ++ sx t ++ B ")") l) ++ B ")".
Definition sx_args (l : list (str * bool)) : str :=
  B "(args" ++ concat (map (fun a : str * bool => (if snd a then B " (vell " else B " (v ") ++ fst a ++ B ")") l) ++ B ")".
Definition sx_names (l : list str) : str := B "(names" ++ concat (map (fun n => B " " ++ n) l) ++ B ")".
Definition sx_tparams (l : list (str * rty)) : str :=
  B "(tparams" ++ concat (map (fun a : str * rty => B " (tp " ++ fst a ++ B " " ++ sx (snd a) ++ B ")") l) ++ B ")".
Definition sx_targs (l : list str) : str := B "(targs" ++ concat (map (fun n => B " (id " ++ n ++ B ")") l) ++ B ")".

Definition bstr (b : bool) : str := if b then B "true" else B "false".

Record case := {
  c_dst : str; c_inpkg : bool;
  c_names : list (str * str);
  c_lower : list (str * str); c_upper : list (str * str);
  c_ifaces : list iface;
  c_obs : list N        (* digests of the observed dump entries (parsing ~20 KB of string literals per
                           case would dominate the run time; the full texts are compared on a mismatch) *)
}.

(* djb2, 32 bit; the harness computes the same function on the observed entries *)
Definition digest (s : str) : N :=
  fold_left (fun h b => N.land (h * 33 + Byte.to_N b) 4294967295) s 5381%N.

Definition case_ctx (c : case) : ctx :=
  {| cx_names := c_names c; cx_lower := c_lower c; cx_upper := c_upper c; cx_exported := exported_ascii |}.

Section Dump.
  Variable cx : ctx.
  Variable f : fdata.

  Definition dump_var (tag : str) (d : mdata) (v : var_) (variadic : bool) : list str :=
    [tag; vname v; bstr variadic;
     sx (param_type_string v);
     sx_params [param_type_string_ellipsis v variadic];
     sx (param_type_string_variadic_underlying v variadic);
     sx_params [param_method_arg v variadic];
     sx_args [param_call_name true v variadic];
     sx_args [param_call_name false v variadic]].

  (* ArgCallListSlice / ArgCallListSliceNoEllipsis for a table of (start, end) pairs bounded by the
     arity: start < min n 4, start <= end < min n 6, end = n, end < 0; and (n, n), (n, -1) *)
  Definition pr_slice (o : option (list (str * bool))) : str :=
    match o with Some l => sx_args l | None => B "PANIC" end.
  Definition slice_table (d : mdata) : list str :=
    let n := length (dparams d) in
    flat_map (fun s =>
        flat_map (fun e => [pr_slice (arg_call_list_slice d s (Some e) true); pr_slice (arg_call_list_slice d s (Some e) false)])
                 (seq s (Nat.min n 6 - s)) ++
        [pr_slice (arg_call_list_slice d s (Some n) true); pr_slice (arg_call_list_slice d s (Some n) false);
         pr_slice (arg_call_list_slice d s None true)])
      (seq 0 (Nat.min n 4)) ++
    [pr_slice (arg_call_list_slice d n (Some n) true); pr_slice (arg_call_list_slice d n None true)].

  Definition dump_method (d : mdata) : list str :=
    [B "#M"; dname d; bstr (is_variadic d); bstr (has_params d); bstr (has_returns d); return_statement d;
     bstr (accepts_context d); bstr (returns_error d);
     sx_params (arg_list d);
     sx_results (arg_type_list d);
     sx_params (arg_type_list_ellipsis d);
     sx_args (arg_call_list d);
     sx_args (arg_call_list_no_ellipsis d);
     match arg_call_list_slice d 0 (Some 1) true with Some l => sx_args l | None => B "PANIC" end;
     (if has_params d then match arg_call_list_slice d 1 None true with Some l => sx_args l | None => B "PANIC" end else B "(args)");
     (if has_params d then match arg_call_list_slice d 1 None false with Some l => sx_args l | None => B "PANIC" end else B "(args)");
     sx_results (return_arg_type_list d);
     sx_names (return_arg_name_list d);
     sx_rlist (return_arg_list d);
     B "(sig " ++ sx_params (fst (signature d)) ++ B " " ++ sx_rlist (snd (signature d)) ++ B ")";
     B "(decl " ++ fst (declaration d) ++ B " " ++ sx_params (fst (snd (declaration d))) ++ B " " ++ sx_rlist (snd (snd (declaration d))) ++ B ")";
     B "(call " ++ fst (call d) ++ B " " ++ sx_args (snd (call d)) ++ B ")"] ++
    slice_table d ++
    concat (mapi (fun k v => dump_var (B "#P") d v (pvariadic d k)) (dparams d)) ++
    concat (mapi (fun k v => dump_var (B "#R") d v (rvariadic d k)) (dreturns d)) ++
    map (fun i => bstr (name_exists (dscope d) (qualifier i))) (f_imports f) ++
    map (fun v => bstr (name_exists (dscope d) (vname v))) (dparams d ++ dreturns d) ++
    [suggest (dscope d) (B "ret"); bstr (capture_free d)].

  Definition dump_iface (i : idata) : list str :=
    [B "#I"; i_name i; i_struct i; sx_tparams (type_constraint cx i); sx_targs (type_instantiation cx i)] ++
    concat (map (fun v => [B "#TP"; vname v; sx (vrty v); sx_tparams [(vname v, vrty v)]]) (i_tparams i)) ++
    concat (map dump_method (i_methods i)).

  Definition dump : list str :=
    concat (map (fun i => [ipath i; qualifier i; ialias i;
                           match ialias i with [] => [] | a => a ++ B " " end ++ quote (ipath i)]) (f_imports f)) ++
    concat (map dump_iface (f_ifaces f)).
End Dump.

Definition model_dump (c : case) : list str :=
  dump (case_ctx c) (gen_file (case_ctx c) (c_dst c) (c_inpkg c) (c_ifaces c)).

Fixpoint first_diff (k : nat) (a b : list N) : option nat :=
  match a, b with
  | [], [] => None
  | x :: a', y :: b' => if N.eqb x y then first_diff (S k) a' b' else Some k
  | _, _ => Some k
  end.

Definition check_case (c : case) : bool :=
  match first_diff 0 (map digest (model_dump c)) (c_obs c) with None => true | Some _ => false end.

Fixpoint mismatches_from (i : nat) (cs : list case) : list nat :=
  match cs with
  | [] => []
  | c :: t => if check_case c then mismatches_from (S i) t else i :: mismatches_from (S i) t
  end.
Definition mismatches := mismatches_from 0.
