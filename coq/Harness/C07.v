(* Correspondence harness for C07: a case = (package tree, sources, root settings, packages
   map, an iteration order of the map, observed exit class, observed mocks). *)
From Mk Require Import Lib.Bytes Lib.Regex Cfg.Select.

Definition obs := (str * str * str)%type.       (* source package, interface, struct name *)
Definition obs_eqb (a b : obs) : bool :=
  seqb (fst (fst a)) (fst (fst b)) && seqb (snd (fst a)) (snd (fst b)) && seqb (snd a) (snd b).

Fixpoint remove_one (x : obs) (l : list obs) : option (list obs) :=
  match l with
  | [] => None
  | y :: t => if obs_eqb x y then Some t
              else match remove_one x t with Some t' => Some (y :: t') | None => None end
  end.
(* multiset equality *)
Fixpoint same_multiset (a b : list obs) : bool :=
  match a with
  | [] => match b with [] => true | _ => false end
  | x :: t => match remove_one x b with Some b' => same_multiset t b' | None => false end
  end.

Definition exit_eqb (a b : exitc) : bool :=
  match a, b with ExOk, ExOk | ExErr, ExErr | ExPanic, ExPanic => true | _, _ => false end.

Record case := {
  c_tree : tree; c_srcs : srcs; c_root : cfg; c_order : list str; c_map : pkgmap;
  c_exit : exitc; c_obs : list obs
}.

(* the second Initialize iterates over the enlarged map: use the reverse of its key list *)
Definition model_outcome (c : case) : outcome :=
  let o2 := rev (map fst (expand_recursive (c_tree c) (c_root c) (c_order c) (c_map c))) in
  run (c_tree c) (c_srcs c) (c_root c) (c_order c) o2 (c_map c).

Definition project (l : list mock) : list obs := map (fun mk => (m_pkg mk, m_iface mk, m_struct mk)) l.

Definition model_obs (c : case) : exitc * list obs :=
  let r := model_outcome c in (o_exit r, project (o_mocks r)).

Definition check_case (c : case) : bool :=
  let r := model_outcome c in
  exit_eqb (o_exit r) (c_exit c) && same_multiset (project (o_mocks r)) (c_obs c).

Fixpoint mismatches_from (i : nat) (cs : list case) : list nat :=
  match cs with
  | [] => []
  | c :: t => if check_case c then mismatches_from (S i) t else i :: mismatches_from (S i) t
  end.
Definition mismatches := mismatches_from 0.
