(* Correspondence harness for C11.
   dcase: one call of Config.ParseTemplates (driver drv_tmpl) - inputs and observed outcome.
   bcase: one run of the mockery binary in a scratch module - layout, config and the
          files it wrote (path, package clause, mock struct names) or a non-zero exit. *)
From Mk Require Import Lib.Bytes Cfg.Tmpl.

Fixpoint list_eqb {A} (e : A -> A -> bool) (a b : list A) : bool :=
  match a, b with
  | [], [] => true
  | x :: a', y :: b' => e x y && list_eqb e a' b'
  | _, _ => false
  end.

Definition params_eqb (a b : params) : bool :=
  seqb (p_dir a) (p_dir b) && seqb (p_file a) (p_file b) && seqb (p_pkg a) (p_pkg b) &&
  seqb (p_struct a) (p_struct b) && seqb (p_schema a) (p_schema b).

Definition canon : nat -> list param := fun _ => all_params.

(* ---------------- driver stream ---------------- *)
Inductive dobs := DOk (v : params) | DInfinite | DParse | DExec.
Record dcase := { d_env : env; d_params : params; d_obs : dobs }.

Definition d_model (c : dcase) : result := parse_templates canon (d_env c) (d_params c).

(* kinds of all template errors of the pass in which the first error occurs (the real map
   order decides which of them is reported) *)
Definition kinds_now (d : data) (c : params) : list tkind :=
  flat_map (fun p => match render d (get c p) with RErr k => [k] | ROk _ => [] end) all_params.
Fixpoint err_kinds (fuel : nat) (d : data) (c : params) : list tkind :=
  match fuel with
  | 0 => []
  | S k => match round all_params d c with
           | inl _ => kinds_now d c
           | inr (c', true) => err_kinds k d c'
           | inr (_, false) => []
           end
  end.
Definition kind_eqb (a b : tkind) : bool :=
  match a, b with EParse, EParse | EExec, EExec | EUnsupported, EUnsupported => true | _, _ => false end.

Definition d_unsupported (c : dcase) : bool :=
  existsb (kind_eqb EUnsupported) (err_kinds cap (bind (d_env c) (p_struct (d_params c))) (d_params c)).

Definition check_dcase (c : dcase) : bool :=
  let kinds := err_kinds cap (bind (d_env c) (p_struct (d_params c))) (d_params c) in
  match d_model c, d_obs c with
  | Ok m, DOk v => params_eqb m v
  | Err InfiniteLoop, DInfinite => true
  | Err (TemplateError _ _), DParse => existsb (kind_eqb EParse) kinds && negb (d_unsupported c)
  | Err (TemplateError _ _), DExec => existsb (kind_eqb EExec) kinds && negb (d_unsupported c)
  | _, _ => false
  end.

Fixpoint mismatches_from {A} (chk : A -> bool) (i : nat) (cs : list A) : list nat :=
  match cs with
  | [] => []
  | c :: t => if chk c then mismatches_from chk (S i) t else i :: mismatches_from chk (S i) t
  end.
Definition mismatches := mismatches_from check_dcase 0.
(* cases the model cannot judge (syntax outside the modelled subset): must be empty *)
Definition unsupported := mismatches_from (fun c => negb (d_unsupported c)) 0.

(* ---------------- binary stream ---------------- *)
Record bcase := {
  b_cwd : str;                      (* working directory (absolute, clean) *)
  b_envcfg : str;                   (* MOCKERY_CONFIG, empty = unset *)
  b_flagcfg : str;                  (* --config, empty = not given *)
  b_files : list str;               (* existing files named .mockery.yaml / .mockery.yml (absolute) *)
  b_pkgname : str; b_pkgpath : str; b_template : str;
  b_ifaces : list iface;
  b_params : params;                (* the five values as configured *)
  b_nfiles : nat;                   (* number of distinct output files expected by the generator *)
  b_obs : option (list (str * str * list str)) }.   (* None: exit status <> 0 *)

Definition b_config (c : bcase) : option str :=
  config_used (b_envcfg c) (b_flagcfg c) (fun p => smem p (b_files c)) (b_cwd c).

Definition b_env (c : bcase) (cfg : str) (i : option iface) : env :=
  {| e_iface := i; e_pkgname := b_pkgname c; e_pkgpath := b_pkgpath c; e_template := b_template c;
     e_config := cfg; e_cwd := b_cwd c |}.

(* the per-file calls on the package config (iface = nil), one after the other *)
Fixpoint pkg_calls (n : nat) (c : bcase) (cfg : str) (ps : params) : bool :=
  match n with
  | 0 => true
  | S k => match parse_templates canon (b_env c cfg None) ps with
           | Ok ps' => pkg_calls k c cfg ps'
           | Err _ => false
           end
  end.

Fixpoint iface_results (c : bcase) (cfg : str) (l : list iface) : option (list (str * str * str)) :=
  match l with
  | [] => Some []
  | i :: t => match parse_templates canon (b_env c cfg (Some i)) (b_params c), iface_results c cfg t with
              | Ok r, Some rs => Some ((abs_path (b_cwd c) (file_path r), p_pkg r, p_struct r) :: rs)
              | _, _ => None
              end
  end.

(* expected (absolute file, package clause, struct name) per interface; None = must fail *)
Definition b_model (c : bcase) : option (list (str * str * str)) :=
  match b_config c with
  | None => None
  | Some cfg => match iface_results c cfg (b_ifaces c) with
                | Some rs => if pkg_calls (b_nfiles c) c cfg (b_params c) then Some rs else None
                | None => None
                end
  end.

Definition matches_file (e : str * str * str) (f : str * str * list str) : bool :=
  let '(path, pkg, sn) := e in let '(path', pkg', sns) := f in
  seqb path path' && seqb pkg pkg' && smem sn sns.

Definition check_bcase (c : bcase) : bool :=
  match b_model c, b_obs c with
  | None, None => true
  | Some exp, Some files =>
      forallb (fun e => existsb (matches_file e) files) exp &&
      (length (flat_map (fun f => snd f) files) =? length exp) &&
      forallb (fun f => existsb (fun e => matches_file e f) exp) files
  | _, _ => false
  end.
Definition bmismatches := mismatches_from check_bcase 0.

(* known-finding class C11-interfacedirrelative-cwd: a value mentions InterfaceDirRelative
   and the working directory is not the directory of the config file *)
Fixpoint contains (needle s : str) : bool :=
  match s with
  | [] => match needle with [] => true | _ => false end
  | _ :: r => has_prefix s needle || contains needle r
  end.
Definition mentions_idr (ps : params) : bool :=
  existsb (fun p => contains (B "InterfaceDirRelative") (get ps p)) all_params.
Definition idr_guard (c : bcase) : bool :=
  match b_config c with
  | Some cfg => negb (seqb (b_cwd c) (abs_path (b_cwd c) (f_dir cfg)))
  | None => false
  end.
Definition in_idr_class (c : bcase) : bool := mentions_idr (b_params c) && idr_guard c.
Definition idr_class := mismatches_from (fun c => negb (in_idr_class c)) 0.

(* known-finding class C11-exponential-self-reference: structname mentions .StructName
   three or more times (the value then grows like 3^passes before the cap is reached; the
   model has unbounded memory, the implementation has not) *)
Fixpoint count_sub (needle s : str) : nat :=
  match s with
  | [] => 0
  | _ :: r => (if has_prefix s needle then 1 else 0) + count_sub needle r
  end.
Definition self_refs (ps : params) : nat := count_sub (B ".StructName") (p_struct ps).
Definition in_growth_class (c : dcase) : bool := 3 <=? self_refs (d_params c).
Definition growth_class := mismatches_from (fun c => negb (in_growth_class c)) 0.
