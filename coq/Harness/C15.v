(* Correspondence harness for C15: a case = (dst, inpkg, history, observed answers). *)
From Mk Require Import Lib.Bytes Gen.Alloc.

Fixpoint list_eqb {A} (e : A -> A -> bool) (a b : list A) : bool :=
  match a, b with
  | [], [] => true
  | x :: a', y :: b' => e x y && list_eqb e a' b'
  | _, _ => false
  end.

Definition out_eqb (a b : out) : bool :=
  match a, b with
  | OName x, OName y => seqb x y
  | OBool x, OBool y => Bool.eqb x y
  | OUnit, OUnit => true
  | OImp p q, OImp p' q' => seqb p p' && seqb q q'
  | OImports l, OImports l' => list_eqb (fun a b => seqb (fst a) (fst b) && seqb (snd a) (snd b)) l l'
  | OQual None, OQual None => true
  | OQual (Some x), OQual (Some y) => seqb x y
  | _, _ => false
  end.

Record case := { c_dst : str; c_inpkg : bool; c_ops : list op; c_obs : list out }.

Definition model_outs (c : case) : list out := map snd (trace (init (c_dst c) (c_inpkg c)) (c_ops c)).
Definition check_case (c : case) : bool := list_eqb out_eqb (model_outs c) (c_obs c).

Fixpoint mismatches_from (i : nat) (cs : list case) : list nat :=
  match cs with
  | [] => []
  | c :: t => if check_case c then mismatches_from (S i) t else i :: mismatches_from (S i) t
  end.
Definition mismatches := mismatches_from 0.
