(* Correspondence harness for C15: a case = (dst, inpkg, history, observed answers). *)
From Mk Require Import Lib.Bytes Gen.Alloc.

Fixpoint list_eqb {A} (e : A -> A -> bool) (a b : list A) : bool :=
  match a, b with
  | [], [] => true
  | x :: a', y :: b' => e x y && list_eqb e a' b'
  | _, _ => false
  end.

Definition out_eqb (a b : out) : bool :=
  match a, b with
  | OName x, OName y => seqb x y
  | OBool x, OBool y => Bool.eqb x y
  | OUnit, OUnit => true
  | OImp p q, OImp p' q' => seqb p p' && seqb q q'
  | OImports l, OImports l' => list_eqb (fun a b => seqb (fst a) (fst b) && seqb (snd a) (snd b)) l l'
  | OQual None, OQual None => true
  | OQual (Some x), OQual (Some y) => seqb x y
  | _, _ => false
  end.

Record case := { c_dst : str; c_inpkg : bool; c_ops : list op; c_obs : list out }.

Definition model_outs (c : case) : list out := map snd (trace (init (c_dst c) (c_inpkg c)) (c_ops c)).
Definition check_case (c : case) : bool := list_eqb out_eqb (model_outs c) (c_obs c).

Fixpoint mismatches_from (i : nat) (cs : list case) : list nat :=
  match cs with
  | [] => []
  | c :: t => if check_case c then mismatches_from (S i) t else i :: mismatches_from (S i) t
  end.
Definition mismatches := mismatches_from 0.

(* Probe cases: histories executed inside a template by the real binary, starting from the
   registry and the method scope of a real method.  The initial registry is given by its
   (path, qualifier) listing, the initial scope by the names that answered NameExists = true. *)
Record pcase := { p_dst : str; p_inpkg : bool; p_imports : list (str * str); p_scope : list str;
                  p_ops : list op; p_obs : list out }.
Definition p_init (c : pcase) : state :=
  ({| dst := p_dst c; inpkg := p_inpkg c;
      imports := map (fun pq => {| ipath := fst pq; iname := snd pq; ialias := [] |}) (p_imports c) |},
   p_scope c).
Definition p_model_outs (c : pcase) : list out := map snd (trace (p_init c) (p_ops c)).
Definition p_check (c : pcase) : bool := list_eqb out_eqb (p_model_outs c) (p_obs c).
Fixpoint p_mismatches_from (i : nat) (cs : list pcase) : list nat :=
  match cs with
  | [] => []
  | c :: t => if p_check c then p_mismatches_from (S i) t else i :: p_mismatches_from (S i) t
  end.
Definition p_mismatches := p_mismatches_from 0.
