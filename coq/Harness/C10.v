(* Correspondence harness for C10: the same case record and check as C09 (one shared model
   of the run, Cfg/Pipeline.v); the C10 scenarios differ in what they vary (initial tree,
   force-file-write, one failing stage for one file). *)
From Mk Require Export Harness.C09.
